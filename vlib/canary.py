#!/usr/bin/env python3
"""Canary mutants (DESIGN 2.5): small semantic changes to a scratch copy of /repo, each of which must
turn the named property's check into exit 1.  A canary that survives means a contract is too weak.

usage: canary.py [--prop Cxx] [--name N]      (also called by the thorough tier)
"""
import json
import os
import shutil
import subprocess
import sys
import tempfile

V = os.path.dirname(os.path.dirname(os.path.abspath(__file__)))
REPO = os.environ.get('VERIF_REPO', '/repo')

# (name, property, file, from, to)
CANARIES = [
    ('release-le', 'C10', 'src/freelist.rs', 'if other_tx_id < tx_id {', 'if other_tx_id <= tx_id {'),
    ('release-never', 'C10', 'src/freelist.rs', 'if other_tx_id < tx_id {', 'if other_tx_id < tx_id && false {'),
    ('allocate-keep-first', 'C10', 'src/freelist.rs', 'for id in found..found + (num_pages as u64) {', 'for id in found + 1..found + (num_pages as u64) {'),
    ('allocate-gap2', 'C10', 'src/freelist.rs', 'if prev == 0 || id - prev != 1 {', 'if prev == 0 || id - prev > 2 {'),
    ('allocate-skip-page2', 'C10', 'src/freelist.rs', 'if block_size == (num_pages as u64) {', 'if block_size == (num_pages as u64) && start != 2 {'),
    ('pages-drop-pending', 'C10', 'src/freelist.rs', 'page_ids.append(&mut pages);', 'if page_ids.is_empty() { page_ids.append(&mut pages); }'),
    ('pages-unsorted', 'C10', 'src/freelist.rs', '        page_ids.sort_unstable();\n', ''),
    ('txalloc-always-extend', 'C10', 'src/freelist.rs', 'Some(page_id) => page_id,', 'Some(page_id) if page_id % 2 == 0 => page_id,\n            Some(_) => { let page_id = self.meta.num_pages; self.meta.num_pages += num_pages; page_id }'),
    ('txalloc-round-down', 'C10', 'src/freelist.rs', '(bytes / self.meta.pagesize) + 1', '(bytes / self.meta.pagesize).max(1)'),
    ('txfree-off-by-one', 'C10', 'src/freelist.rs', 'for id in page_id..(page_id + num_pages) {', 'for id in page_id..(page_id + num_pages - 1) {'),
    ('free-wrong-tx', 'C10', 'src/freelist.rs', 'self.pending_pages.entry(tx_id)', 'self.pending_pages.entry(tx_id - tx_id % 2)'),
    ('init-skip-first', 'C10', 'src/freelist.rs', 'free_pages.iter().for_each(|id| {', 'free_pages.iter().skip(1).for_each(|id| {'),
    ('meta-select-older', 'C12', 'src/db.rs', 'if meta1.tx_id > meta2.tx_id {', 'if meta1.tx_id < meta2.tx_id {'),
    ('meta-no-type-guard', 'C12', 'src/db.rs', 'let meta1 = if page1.page_type == Page::TYPE_META && page1.$func().valid() {', 'let meta1 = if page1.$func().valid() {'),
    ('meta-drop-single', 'C12', 'src/db.rs', '(Some(meta1), None) => Some(meta1),', '(Some(_m), None) => None,'),
    ('meta-trust-unchecked', 'C12', 'src/db.rs', 'let meta2 = if page2.page_type == Page::TYPE_META && page2.$func().valid() {', 'let meta2 = if page2.page_type == Page::TYPE_META {'),
    ('hash-drop-txid', 'C12', 'src/meta.rs', '        hasher.write(&self.tx_id.to_be_bytes());\n', ''),
    ('hash-swap-fields', 'C15', 'src/meta.rs', '        hasher.write(&self.num_pages.to_be_bytes());\n        hasher.write(&self.freelist_page.to_be_bytes());\n', '        hasher.write(&self.freelist_page.to_be_bytes());\n        hasher.write(&self.num_pages.to_be_bytes());\n'),
    ('oldmeta-from-drop-txid', 'C15', 'src/meta.rs', 'tx_id: val.tx_id,', 'tx_id: 0,'),
    ('valid-always', 'C12', 'src/meta.rs', '        self.hash == self.hash_self()\n    }\n\n    pub(crate) fn hash_self(&self) -> u64 {', '        self.hash == self.hash_self() || self.hash == 0\n    }\n\n    pub(crate) fn hash_self(&self) -> u64 {'),
    ('commit-no-sync-before-header', 'C02', 'src/tx.rs', '                file.flush()?;\n                file.sync_all()?;\n            }\n        }\n', '            }\n        }\n'),
    ('commit-same-slot', 'C02', 'src/tx.rs', 'let meta_page_id = u64::from(self.meta.meta_page == 0);', 'let meta_page_id = u64::from(self.meta.meta_page != 0);'),
    ('commit-header-drops-txid', 'C02', 'src/tx.rs', '                m.tx_id = self.meta.tx_id;\n', ''),
    ('commit-stale-hwm', 'C02', 'src/tx.rs', '            self.meta.num_pages = freelist.meta.num_pages;\n', ''),
    ('commit-page-wrong-offset', 'C02', 'src/tx.rs', 'file.seek(SeekFrom::Start(self.db.inner.pagesize * page_id))?;', 'file.seek(SeekFrom::Start(self.db.inner.pagesize * (page_id - 1)))?;'),
    ('commit-grow-too-little', 'C02', 'src/tx.rs', 'let alloc_size = ((size_diff / MIN_ALLOC_SIZE) + 1) * MIN_ALLOC_SIZE;', 'let alloc_size = (size_diff / MIN_ALLOC_SIZE) * MIN_ALLOC_SIZE;'),
    ('commit-swallow-final-sync', 'C11', 'src/tx.rs', '            file.flush()?;\n            file.sync_all()?;\n\n            let mut lock', '            file.flush()?;\n            let _ = file.sync_all();\n\n            let mut lock'),
    ('commit-leak-old-freelist', 'C02', 'src/tx.rs', '                freelist.free(self.meta.freelist_page, self.num_freelist_pages);\n', ''),
    ('commit-skip-last-page', 'C02', 'src/tx.rs', 'for (page_id, (ptr, size)) in freelist.pages.iter() {', 'for (page_id, (ptr, size)) in freelist.pages.iter().skip(1) {'),
    ('commit-unwrap-write', 'C11', 'src/tx.rs', '                    file.write_all(buf)?;', '                    file.write_all(buf).unwrap();'),
    ('txnew-ignore-readers', 'C03', 'src/tx.rs', 'freelist.release(open_ro_txs[0]);', 'freelist.release(meta.tx_id);'),
    ('txnew-unsorted-readers', 'C03', 'src/tx.rs', '                open_ro_txs.sort_unstable();\n', ''),
    ('txnew-reader-not-registered', 'C03', 'src/tx.rs', '                open_ro_txs.push(meta.tx_id);\n', ''),
    ('txnew-no-txid-bump', 'C03', 'src/tx.rs', '                meta.tx_id += 1;\n', ''),
    ('txnew-release-one-more', 'C03', 'src/tx.rs', 'freelist.release(open_ro_txs[0]);', 'freelist.release(open_ro_txs[0] + 1);'),
    ('txdrop-remove-first', 'C03', 'src/tx.rs', 'open_txs.remove(index);', 'open_txs.remove(0);'),
    ('txdrop-writer-deregisters', 'C03', 'src/tx.rs', '        if !self.lock.writable() {\n            let mut open_txs', '        if self.lock.writable() {\n            let mut open_txs'),
    ('guard-put-removed', 'C06', 'src/bucket.rs', '        if !self.writable {\n            return Err(Error::ReadOnlyTx);\n        }\n        let mut b = self.inner.borrow_mut();\n        if b.deleted {\n            panic!("Cannot put data', '        let mut b = self.inner.borrow_mut();\n        if b.deleted {\n            panic!("Cannot put data'),
    ('guard-delete-bucket-late', 'C06', 'src/bucket.rs', '        if !self.writable {\n            return Err(Error::ReadOnlyTx);\n        }\n\n        let mut freelist = self.freelist.borrow_mut();\n        let mut b = self.inner.borrow_mut();', '        let mut freelist = self.freelist.borrow_mut();\n        let mut b = self.inner.borrow_mut();\n        if !self.writable {\n            return Err(Error::ReadOnlyTx);\n        }\n'),
    ('guard-tx-delete-bucket-removed', 'C06', 'src/tx.rs', '        if !tx.lock.writable() {\n            return Err(Error::ReadOnlyTx);\n        }\n        let freelist = tx.freelist.clone();', '        let freelist = tx.freelist.clone();'),
    ('guard-commit-removed', 'C06', 'src/tx.rs', '        if !self.writable() {\n            return Err(Error::ReadOnlyTx);\n        }\n', ''),
    ('get-bucket-always-writable', 'C06', 'src/tx.rs', '            writable: tx.lock.writable(),\n            _phantom: PhantomData,\n        })\n    }\n\n    /// Creates a new bucket', '            writable: true,\n            _phantom: PhantomData,\n        })\n    }\n\n    /// Creates a new bucket'),
    ('guard-wrong-error', 'C06', 'src/bucket.rs', '        if !self.writable {\n            return Err(Error::ReadOnlyTx);\n        }\n        let mut b = self.inner.borrow_mut();\n        if b.deleted {\n            panic!("Cannot delete data', '        if !self.writable {\n            return Err(Error::KeyValueMissing);\n        }\n        let mut b = self.inner.borrow_mut();\n        if b.deleted {\n            panic!("Cannot delete data'),
    ('open-accept-unaligned-pagesize', 'C16', 'src/db.rs', '        if pagesize % 8 != 0 {\n            panic!("Pagesize must be a multiple of 8 bytes");\n        }\n', ''),
    ('open-accept-tiny-pagesize', 'C16', 'src/db.rs', '        if pagesize < 1024 {\n            panic!("Pagesize must be 1024 bytes minimum");\n        }\n        // Pages', '        // Pages'),
    ('init-one-header', 'C15', 'src/db.rs', '    for i in 0..2 {\n        let page = get_page(i);', '    for i in 0..1 {\n        let page = get_page(i);'),
    ('init-wrong-magic', 'C15', 'src/db.rs', 'const MAGIC_VALUE: u32 = 0x00AB_CDEF;', 'const MAGIC_VALUE: u32 = 0x00AB_CDEE;'),
    ('init-no-hash', 'C15', 'src/db.rs', '        m.num_pages = 4;\n        m.hash = m.hash_self();\n', '        m.num_pages = 4;\n'),
    ('init-no-sync', 'C16', 'src/db.rs', '    file.write_all(&buf[..])?;\n    file.flush()?;\n    file.sync_all()?;\n    Ok(file)', '    file.write_all(&buf[..])?;\n    file.flush()?;\n    Ok(file)'),
    ('init-too-small-file', 'C16', 'src/db.rs', 'file.allocate(pagesize * (num_pages as u64))?;', 'file.allocate(pagesize * ((num_pages - 1) as u64))?;'),
    ('resize-allocate-less', 'C16', 'src/db.rs', '        file.allocate(new_size)?;', '        file.allocate(new_size / 2)?;'),
    ('open-existing-rewrites-header', 'C06', 'src/db.rs', '            open_file(path, false, self.flags.direct_writes)?\n        };', '            { let mut f = open_file(path, false, self.flags.direct_writes)?; f.flush()?; f }\n        };'),
    ('range-ignore-excluded-start', 'C08', 'src/cursor.rs', '                Bound::Excluded(s) => Some((s, true)),', '                Bound::Excluded(s) => Some((s, false)),'),
    ('range-excluded-end-inclusive', 'C08', 'src/cursor.rs', '                Bound::Excluded(e) => {\n                    if data.key() < *e {', '                Bound::Excluded(e) => {\n                    if data.key() <= *e {'),
    ('range-no-skip-before-start', 'C08', 'src/cursor.rs', '                    if data.key() < *s {\n                        self.c.next();\n                    }', '                    if data.key() < *s {\n                    }'),
    ('range-skip-existing-start', 'C08', 'src/cursor.rs', '                    if excluded {\n                        self.c.next();\n                    }', '                    self.c.next();'),
    ('cursor-underflow-empty-node', 'C08', 'src/cursor.rs', 'if elem.index + 1 >= page_node.len() {', 'if elem.index >= (page_node.len() - 1) {'),
    ('cursor-current-on-branch', 'C08', 'src/cursor.rs', '                if !n.leaf() {\n                    return None;\n                }\n', ''),
    ('cursor-pop-root', 'C08', 'src/cursor.rs', '                    if self.stack.len() == 1 {\n                        return false;\n                    }\n', ''),
    ('filter-kv-yields-buckets-too', 'C08', 'src/cursor.rs', '            if let Data::KeyValue(kv) = data {\n                return Some(kv);\n            }\n        }\n        None', '            if let Data::KeyValue(kv) = data {\n                return Some(kv);\n            } else {\n                return None;\n            }\n        }\n        None'),
    ('filter-buckets-readonly-handle', 'C08', 'src/cursor.rs', '                            writable: self.writable,\n                            freelist: self.freelist.clone(),\n                            inner: r,', '                            writable: true,\n                            freelist: self.freelist.clone(),\n                            inner: r,'),
    ('branch-separator-last-key', 'C05', 'src/node.rs', '            NodeData::Branches(b) => b[0].key.clone(),\n            NodeData::Leaves(l) => l[0].key_bytes(),', '            NodeData::Branches(b) => b[b.len() - 1].key.clone(),\n            NodeData::Leaves(l) => l[l.len() - 1].key_bytes(),'),
    ('bytes-cmp-reversed', 'C08', 'src/bytes.rs', '        a.cmp(b)', '        b.cmp(a)'),
    ('bytes-eq-by-length', 'C01', 'src/bytes.rs', '        a.eq(b)', '        a.len() == b.len()'),
    ('cursor-next-repeats-entry', 'C08', 'src/cursor.rs', '        } else if self.next_called && !self.advance() {', '        } else if false && !self.advance() {'),
    ('cursor-search-always-found', 'C08', 'src/cursor.rs', '            return (exact, stack);', '            return (true, stack);'),
    ('cursor-search-wrong-child', 'C08', 'src/cursor.rs', '        let next_page_id = page_node.index_page(index);', '        let next_page_id = page_node.index_page(0);'),
    ('cursor-skip-loop-spins', 'C08', 'src/cursor.rs', '        while self.on_emptied_leaf() {\n            if !self.advance() {\n                return None;\n            }\n        }', '        while self.on_emptied_leaf() {\n            if self.stack.is_empty() {\n                return None;\n            }\n        }'),
    ('cursor-stops-at-emptied-leaf', 'C07', 'src/cursor.rs', '        while self.on_emptied_leaf() {', '        while false {'),
    ('cursor-skips-one-entry-leaf', 'C07', 'src/cursor.rs', '                n.leaf() && e.index >= n.len()', '                n.leaf() && e.index + 1 >= n.len()'),
    ('cursor-advance-reports-end-early', 'C08', 'src/cursor.rs', '            self.seek_first();\n            return true;', '            self.seek_first();\n            return false;'),
    ('cursor-seek-first-second-child', 'C08', 'src/cursor.rs', '            self.stack.push(SearchPath {\n                index: 0,\n                id: PageNodeID::Page(page_id),\n            });\n        }\n    }\n\n    // Moves', '            self.stack.push(SearchPath {\n                index: 1,\n                id: PageNodeID::Page(page_id),\n            });\n        }\n    }\n\n    // Moves'),
    ('index-no-slot-before', 'C08', 'src/page_node.rs', '                i = i.saturating_sub(1);\n', ''),
    ('index-exact-off-by-one', 'C08', 'src/page_node.rs', '            Ok(i) => (i, true),', '            Ok(i) => (i + 1, true),'),
    ('insert-data-front', 'C07', 'src/node.rs', '                    Err(i) => leaves.insert(i, leaf),', '                    Err(_i) => leaves.insert(0, leaf),'),
    ('insert-data-duplicate', 'C07', 'src/node.rs', '                    Ok(i) => leaves[i] = leaf,', '                    Ok(i) => leaves.insert(i, leaf),'),
    ('node-delete-wrong-index', 'C07', 'src/node.rs', '            NodeData::Leaves(leaves) => leaves.remove(index),', '            NodeData::Leaves(leaves) => leaves.remove(0),'),
    ('pagenode-len-node-zero', 'C07', 'src/page_node.rs', '            PageNode::Node(n) => n.borrow().data.len(),', '            PageNode::Node(n) => n.borrow().children.len(),'),
    ('delete-bucket-free-one-page', 'C05', 'src/bucket.rs', '                freelist.free(page_id, num_pages);', '                freelist.free(page_id, 1);'),
    ('delete-bucket-free-twice', 'C05', 'src/bucket.rs', '                freelist.free(page_id, num_pages);', '                freelist.free(page_id, num_pages);\n                if num_pages > 1 { freelist.free(page_id, 1); }'),
    ('delete-marks-dirty-on-error', 'C01', 'src/bucket.rs', '                let current_id = last.id;\n                let index = last.index;\n                self.dirty = true;\n                let node = self.node(current_id, None);\n                let mut node = node.borrow_mut();\n                match node.delete(index) {', '                let current_id = last.id;\n                let index = last.index;\n                let node = self.node(current_id, None);\n                let mut node = node.borrow_mut();\n                match node.delete(index) {'),
    ('put-leaf-counts-replacements', 'C01', 'src/bucket.rs', '            Some(current)\n        } else {\n            self.meta.next_int += 1;\n            None\n        };', '            self.meta.next_int += 1;\n            Some(current)\n        } else {\n            self.meta.next_int += 1;\n            None\n        };'),
    ('put-leaf-bumps-before-kind-check', 'C01', 'src/bucket.rs', '            let current = page_node.val(last.index).unwrap();\n            if current.is_kv() != leaf.is_kv() {', '            let current = page_node.val(last.index).unwrap();\n            self.dirty = true;\n            if current.is_kv() != leaf.is_kv() {'),
    ('open-no-lock', 'C13', 'src/db.rs', '        file.lock_exclusive()?;\n', ''),
    ('open-lock-after-map', 'C13', 'src/db.rs', '        file.lock_exclusive()?;\n        let mmap = mmap(&file, flags.mmap_populate)?;\n', '        let mmap = mmap(&file, flags.mmap_populate)?;\n        file.lock_exclusive()?;\n'),
    ('open-lock-error-ignored', 'C13', 'src/db.rs', '        file.lock_exclusive()?;\n', '        let _ = file.lock_exclusive();\n'),
    # tree layer outside the verifier's reach: these are for the BOUNDED stand-ins that run in the quick tier
    ('tree-merge-leaves-unsorted', 'C01', 'src/node.rs', '                l1.append(l2);\n                l1.sort_unstable_by_key(|l| l.key_bytes());', '                l1.append(l2);'),
    ('tree-split-drops-boundary', 'C01', 'src/node.rs', '            NodeData::Leaves(l) => NodeData::Leaves(l.split_off(index)),', '            NodeData::Leaves(l) => { let mut r = l.split_off(index); if r.len() > 2 { r.remove(0); } NodeData::Leaves(r) }'),
    ('tree-node-page-not-freed', 'C05', 'src/node.rs', '        if self.page_id != 0 {\n            tx_freelist.free(self.page_id, self.num_pages);', '        if self.page_id != 0 && self.num_pages > 1 {\n            tx_freelist.free(self.page_id, self.num_pages);'),
    ('tree-merge-keeps-separator', 'C05', 'src/bucket.rs', '                                sibling.original_key = Some(sibling.data.first_key());\n', ''),
    ('tree-promote-needs-node', 'C01', 'src/bucket.rs', '        let root = self.node(PageNodeID::Page(self.meta.root_page), None);', '        let root = self.nodes[self.page_node_ids[&self.meta.root_page] as usize].clone();'),
    ('tree-keep-empty-only-child', 'C01', 'src/bucket.rs', '                        if branches.len() == 1 && node.data.len() > 0 {', '                        if branches.len() == 1 {'),
    ('delbucket-no-already-freed-guard', 'C05', 'src/bucket.rs', '                                if !freelist.is_freed(meta.root_page) {\n                                    remaining_pages.push(meta.root_page);\n                                }', '                                remaining_pages.push(meta.root_page);'),
    ('isfreed-other-tx', 'C05', 'src/freelist.rs', '            .get(&self.meta.tx_id)\n            .map_or(false, |pages| pages.contains(&page_id))', '            .get(&(self.meta.tx_id - 1))\n            .map_or(false, |pages| pages.contains(&page_id))'),
    ('put-overwrites-bucket', 'C01', 'src/bucket.rs', '            if current.is_kv() != leaf.is_kv() {\n                return Err(Error::IncompatibleValue);\n            }\n', ''),
    ('delete-missing-wrong-error', 'C01', 'src/bucket.rs', '        } else {\n            Err(Error::KeyValueMissing)\n        }', '        } else {\n            Err(Error::IncompatibleValue)\n        }'),
    ('getter-create-over-cached', 'C01', 'src/bucket.rs', '        } else if must_create {\n            return Err(Error::BucketExists);\n        }', '        }'),
    ('getter-wrong-error-kind', 'C01', 'src/bucket.rs', '                        _ => return Err(Error::IncompatibleValue),\n                    },', '                        _ => return Err(Error::BucketMissing),\n                    },'),
    ('insert-branch-adds-second-entry', 'C05', 'src/node.rs', '                        assert!(original_key.is_some());\n                        branches[i] = branch', '                        assert!(original_key.is_some());\n                        branches.insert(i, branch)'),
    ('insert-branch-after-its-place', 'C05', 'src/node.rs', '                        assert!(original_key.is_none());\n                        branches.insert(i, branch)', '                        assert!(original_key.is_none());\n                        branches.push(branch)'),
    ('split-at-drops-one', 'C05', 'src/node.rs', '            NodeData::Leaves(l) => NodeData::Leaves(l.split_off(index)),', '            NodeData::Leaves(l) => { let r = l.split_off(index); l.pop(); NodeData::Leaves(r) }'),
    ('node-frees-first-page-only', 'C10', 'src/node.rs', '            tx_freelist.free(self.page_id, self.num_pages);', '            tx_freelist.free(self.page_id, 1);'),
    ('node-keeps-freed-page-id', 'C05', 'src/node.rs', '            tx_freelist.free(self.page_id, self.num_pages);\n            self.page_id = 0;', '            tx_freelist.free(self.page_id, self.num_pages);'),
    ('node-num-pages-off', 'C05', 'src/node.rs', '        self.num_pages = page.overflow + 1;\n        Ok(page)', '        self.num_pages = page.overflow;\n        Ok(page)'),
    ('deleted-node-written', 'C05', 'src/node.rs', '        if self.deleted {\n            return Ok(());\n        }\n        self.spilled = true;', '        self.spilled = true;'),
    ('from-page-forgets-overflow', 'C05', 'src/node.rs', '            num_pages: p.overflow + 1,', '            num_pages: 1,'),
    ('from-leaf-value-is-key', 'C07', 'src/node.rs', 'Node::TYPE_DATA => Leaf::Kv(Bytes::Slice(l.key()), Bytes::Slice(l.value())),', 'Node::TYPE_DATA => Leaf::Kv(Bytes::Slice(l.key()), Bytes::Slice(l.key())),'),
    ('from-page-original-key-off', 'C05', 'src/node.rs', '        let original_key = if data.len() > 0 {\n            Some(data.first_key())\n        } else {\n            None\n        };\n        Node {\n            id,\n            page_id: p.id,', '        let original_key = if data.len() > 1 {\n            Some(data.first_key())\n        } else {\n            None\n        };\n        Node {\n            id,\n            page_id: p.id,'),
    ('getter-counts-lookups', 'C01', 'src/bucket.rs', '            if !exists {\n                if should_create {\n                    self.meta.next_int += 1;', '            self.meta.next_int += 1;\n            if !exists {\n                if should_create {'),
    ('split-index-off-by-one', 'C05', 'src/node.rs', '                    if count >= MIN_KEYS_PER_NODE && new_size > threshold {\n                        split_indexes.push(i + 1);\n                        current_size = HEADER_SIZE + size;\n                        count = 0;\n                    } else {\n                        current_size = new_size;\n                    }\n                }\n            }\n        };', '                    if count >= MIN_KEYS_PER_NODE && new_size > threshold {\n                        split_indexes.push(i + 2);\n                        current_size = HEADER_SIZE + size;\n                        count = 0;\n                    } else {\n                        current_size = new_size;\n                    }\n                }\n            }\n        };'),
    ('split-one-entry-pieces', 'C05', 'src/node.rs', 'const MIN_KEYS_PER_NODE: usize = 2;', 'const MIN_KEYS_PER_NODE: usize = 1;'),
    ('split-last-piece-short', 'C05', 'src/node.rs', 'for (i, l) in leaves[..len - 2].iter().enumerate() {', 'for (i, l) in leaves[..len - 1].iter().enumerate() {'),
    ('split-keeps-a-copy', 'C05', 'src/node.rs', '            .map(|i| self.data.split_at(i))', '            .map(|i| { let d = self.data.split_at(i); d })'),
    ('size-forgets-element-headers', 'C05', 'src/node.rs', 'NodeData::Branches(b) => b.iter().fold(BRANCH_SIZE * b.len() as u64, |acc, b| {', 'NodeData::Branches(b) => b.iter().fold(0, |acc, b| {'),
    ('leaf-size-forgets-value', 'C05', 'src/node.rs', '            Self::Kv(k, v) => k.size() + v.size(),', '            Self::Kv(k, _v) => k.size(),'),
    ('new-node-wrong-id', 'C05', 'src/bucket.rs', '        let n = Node::with_data(node_id, data, self.pages.pagesize);', '        let n = Node::with_data(node_id + 1, data, self.pages.pagesize);'),
    ('with-data-keeps-a-page', 'C05', 'src/node.rs', '            page_id: 0,\n            num_pages: 0,\n            children: Vec::new(),\n            data,\n            deleted: false,\n            original_key,\n            pagesize,\n            spilled: false,\n            parent: None,\n        }\n    }\n\n    pub(crate) fn insert_child', '            page_id: 2,\n            num_pages: 1,\n            children: Vec::new(),\n            data,\n            deleted: false,\n            original_key,\n            pagesize,\n            spilled: false,\n            parent: None,\n        }\n    }\n\n    pub(crate) fn insert_child'),
    ('spill-headers-not-restored', 'C05', 'src/bucket.rs', '            self.put_leaf(Leaf::Bucket(name, meta))?;\n        }\n\n        // The root page can be', '            let _ = (name, meta);\n        }\n\n        // The root page can be'),
    ('spill-keeps-old-root', 'C05', 'src/bucket.rs', '        self.meta.root_page = page_id;\n\n        Ok(self.meta)', '        let _ = page_id;\n\n        Ok(self.meta)'),
    ('spill-bumps-counter', 'C01', 'src/bucket.rs', '        self.meta.root_page = page_id;\n\n        Ok(self.meta)', '        self.meta.root_page = page_id;\n        self.meta.next_int += 1;\n\n        Ok(self.meta)'),
    ('spill-skips-some-children', 'C05', 'src/bucket.rs', '            let bucket_meta = b.spill(tx_freelist)?;\n            // Store updated bucket metadata in a map since self is borrowed\n            bucket_metas.insert(key.clone(), bucket_meta);', '            if b.meta.next_int % 2 == 1 { continue; }\n            let bucket_meta = b.spill(tx_freelist)?;\n            bucket_metas.insert(key.clone(), bucket_meta);'),
    ('merge-branches-unsorted', 'C05', 'src/node.rs', '                b1.append(b2);\n                b1.sort_unstable_by_key(|b| b.key.clone());', '                b1.append(b2);'),
    ('merge-loses-other-node', 'C05', 'src/node.rs', '                l1.append(l2);\n', '                l2.clear();\n'),
    ('overlay-ignores-nodes', 'C07', 'src/bucket.rs', '                if let Some(node_id) = self.page_node_ids.get(&page) {\n                    PageNode::Node(self.nodes[*node_id as usize].clone())', '                if let Some(node_id) = self.page_node_ids.get(&page).filter(|i| **i % 2 == 0) {\n                    PageNode::Node(self.nodes[*node_id as usize].clone())'),
    ('overlay-wrong-node', 'C07', 'src/bucket.rs', '                    PageNode::Node(self.nodes[*node_id as usize].clone())\n                } else {', '                    PageNode::Node(self.nodes[(*node_id as usize).saturating_sub(1)].clone())\n                } else {'),
    ('overlay-node-id-as-page', 'C07', 'src/bucket.rs', '            PageNodeID::Node(node) => PageNode::Node(self.nodes[node as usize].clone()),\n        }\n    }\n\n    pub fn get', '            PageNodeID::Node(node) => PageNode::Page(self.pages.page(node)),\n        }\n    }\n\n    pub fn get'),
    ('pagenode-id-of-page-is-count', 'C07', 'src/page_node.rs', '            PageNode::Page(p) => PageNodeID::Page(p.id),', '            PageNode::Page(p) => PageNodeID::Page(p.count),'),
    ('check-ignores-overflow-runs', 'C05', 'src/tx.rs', '            for i in 0..page.overflow {\n                let page_id = page_id + i + 1;', '            for i in 0..page.overflow.min(1) {\n                let page_id = page_id + i + 1;'),
    ('check-accepts-leftover-pages', 'C05', 'src/tx.rs', '        if !unused_pages.is_empty() {\n            return Err(Error::InvalidDB(format!(\n                "Unreachable pages {:?}",\n                unused_pages,\n            )));\n        }\n', ''),
    ('check-skips-branch-children', 'C05', 'src/tx.rs', '                        page_stack.push(b.page);\n', ''),
    ('check-allows-equal-keys', 'C05', 'src/tx.rs', '                            if last >= b.key() {', '                            if last > b.key() {'),
    ('tree-check-tolerates-double-use', 'C05', 'src/tx.rs', '            if !unused_pages.remove(&page_id) {\n                return Err(Error::InvalidDB(format!(\n                    "Page {} missing from unused_pages",\n                    page_id,\n                )));\n            }\n', '            unused_pages.remove(&page_id);\n'),
    ('check-ignores-free-list-entries', 'C05', 'src/tx.rs', '                    for page_id in page.freelist() {\n                        if !unused_pages.remove(page_id) {', '                    for page_id in page.freelist().iter().skip(1) {\n                        if !unused_pages.remove(page_id) {'),
    ('get-bucket-creates', 'C01', 'src/bucket.rs', '        self.bucket_getter(name.to_bytes(), false, false)', '        self.bucket_getter(name.to_bytes(), true, false)'),
    ('create-bucket-returns-existing', 'C01', 'src/bucket.rs', '        self.bucket_getter(name.to_bytes(), true, true)', '        self.bucket_getter(name.to_bytes(), true, false)'),
    ('get-or-create-refuses-existing', 'C01', 'src/bucket.rs', '        &mut self,\n        name: T,\n    ) -> Result<Rc<RefCell<Self>>> {\n        self.bucket_getter(name.to_bytes(), true, false)', '        &mut self,\n        name: T,\n    ) -> Result<Rc<RefCell<Self>>> {\n        self.bucket_getter(name.to_bytes(), true, true)'),
    ('data-kv-swapped', 'C07', 'src/data.rs', '            Leaf::Kv(key, value) => Data::KeyValue(KVPair::new(key, value)),', '            Leaf::Kv(key, value) => Data::KeyValue(KVPair::new(value, key)),'),
    ('kvpair-value-is-key', 'C07', 'src/data.rs', '    pub fn value(&self) -> &[u8] {\n        self.value.as_ref()', '    pub fn value(&self) -> &[u8] {\n        self.key.as_ref()'),
    ('option-kv-from-bucket', 'C07', 'src/data.rs', '            Leaf::Bucket(_, _) => None,\n            Leaf::Kv(key, value) => Some(KVPair::new(key, value)),', '            Leaf::Bucket(n, _) => Some(KVPair::new(n.clone(), n)),\n            Leaf::Kv(key, value) => Some(KVPair::new(key, value)),'),
    ('writenode-pos-ignores-earlier-payloads', 'C05', 'src/page.rs', '                    elem.value_size = value.len() as u64;\n                    elem.pos = header_offsets + data_size;', '                    elem.value_size = value.len() as u64;\n                    elem.pos = header_offsets;'),
    ('writenode-value-size-is-key-size', 'C15', 'src/page.rs', '                    elem.value_size = value.len() as u64;', '                    elem.value_size = key.len() as u64;'),
    ('writenode-branch-offsets-not-stepped', 'C05', 'src/page.rs', '                    data_size += elem.key_size;\n                    header_offsets -= header_size;', '                    data_size += elem.key_size;'),
    ('writenode-count-one-more', 'C05', 'src/page.rs', '        self.count = n.data.len() as u64;', '        self.count = n.data.len() as u64 + 1;'),
    ('writenode-leaf-announced-as-branch', 'C15', 'src/page.rs', '                self.page_type = Page::TYPE_LEAF;\n                header_size = size_of::<LeafElement>() as u64;', '                self.page_type = Page::TYPE_BRANCH;\n                header_size = size_of::<LeafElement>() as u64;'),
    ('writenode-payload-after-a-gap', 'C05', 'src/page.rs', '        let mut buf = &mut buf[(total_header as usize)..];', '        let mut buf = &mut buf[(total_header as usize + 8)..];'),
    ('new-child-parent-not-marked-dirty', 'C07', 'src/bucket.rs', '    fn new_child<\'a>(&\'a mut self, name: Bytes<\'b>) -> RefMut<InnerBucket<\'b>> {\n        self.dirty = true;\n', '    fn new_child<\'a>(&\'a mut self, name: Bytes<\'b>) -> RefMut<InnerBucket<\'b>> {\n'),
    ('new-child-root-is-a-page', 'C07', 'src/bucket.rs', '            root: PageNodeID::Node(0),', '            root: PageNodeID::Page(0),'),
    # the public read entry points of a bucket handle (unit bucketops)
    ('bucket-get-kv-answers-only-when-dirty', 'C07', 'src/bucket.rs', '        match b.get(key) {\n            Some(data) => data.into(),\n            None => None,\n        }', '        match b.get(key) {\n            Some(data) if b.dirty => data.into(),\n            _ => None,\n        }'),
    ('bucket-next-int-is-the-root-page', 'C07', 'src/bucket.rs', '            panic!("Cannot get next int from a deleted bucket.");\n        }\n        b.meta.next_int', '            panic!("Cannot get next int from a deleted bucket.");\n        }\n        b.meta.root_page'),
    ('bucket-get-drops-the-answer', 'C07', 'src/bucket.rs', '        b.get(key).map(|data| data.into())', '        b.get(key).map(|data| data.into()).filter(|_| false)'),
    ('cursor-new-starts-as-already-polled', 'C08', 'src/cursor.rs', '            stack: Vec::new(),\n            next_called: false,', '            stack: Vec::new(),\n            next_called: true,'),
    ('cursor-new-drops-write-permission', 'C08', 'src/cursor.rs', '            freelist: b.freelist.clone(),\n            writable: b.writable,\n            stack: Vec::new(),', '            freelist: b.freelist.clone(),\n            writable: false,\n            stack: Vec::new(),'),
    # E13: a bucket deletion refuses every open handle below the deleted bucket
    ('delete-bucket-marks-only-itself', 'C05', 'src/bucket.rs', '        b.mark_deleted();\n', '        b.deleted = true;\n'),
    ('mark-deleted-stops-at-the-children', 'C05', 'src/bucket.rs', '            child.borrow_mut().mark_deleted();', '            child.borrow_mut().deleted = true;'),
    ('mark-deleted-forgets-itself', 'C05', 'src/bucket.rs', '    fn mark_deleted(&mut self) {\n        self.deleted = true;\n', '    fn mark_deleted(&mut self) {\n'),
    # the old free-list run that joins the pending pages lies below the high-water mark
    ('commit-frees-one-page-too-many', 'C05', 'src/tx.rs', '                freelist.free(self.meta.freelist_page, self.num_freelist_pages);', '                freelist.free(self.meta.freelist_page, self.num_freelist_pages + 1);'),
    ('to-buckets-drops-write-permission', 'C07', 'src/cursor.rs', '        let bucket = self.bucket.clone();\n        let writable = self.writable;\n        Buckets {\n            i: self,', '        let bucket = self.bucket.clone();\n        let writable = false;\n        Buckets {\n            i: self,'),
    ('db-tx-always-writable', 'C06', 'src/db.rs', '        Tx::new(self, writable)', '        Tx::new(self, true)'),
    ('tx-buckets-hands-out-writable-handles', 'C06', 'src/tx.rs', '            freelist: tx.freelist.clone(),\n            writable: tx.lock.writable(),\n            _phantom: PhantomData,\n        };\n        bucket.cursor().to_buckets()', '            freelist: tx.freelist.clone(),\n            writable: true,\n            _phantom: PhantomData,\n        };\n        bucket.cursor().to_buckets()'),
    ('bucket-kv-pairs-lists-buckets-too', 'C08', 'src/bucket.rs', '        self.cursor().to_kv_pairs()', '        self.range::<std::ops::RangeFull>(..).to_kv_pairs()'),
    ('buckets-next-hands-out-the-parents-handle', 'C07', 'src/cursor.rs', '                            freelist: self.freelist.clone(),\n                            inner: r,\n', '                            freelist: self.freelist.clone(),\n                            inner: self.bucket.clone(),\n'),
]


# Semantics-PRESERVING edits: the check must NOT answer exit 1 for any of them (exit 0 or exit 2 are both acceptable).
EQUIVALENTS = [
    # a bucket opened dirty is rewritten at commit: costs pages, breaks nothing
    ('eq-from-meta-starts-dirty', 'C07', 'src/bucket.rs', '            root: PageNodeID::Page(meta.root_page),\n            deleted: false,\n            dirty: false,', '            root: PageNodeID::Page(meta.root_page),\n            deleted: false,\n            dirty: true,'),
    # third session: semantics-preserving edits of the functions newly under contract
    ('eq-check-start-pages-other-order', 'C05', 'src/tx.rs', '        page_stack.push(self.meta.root.root_page);\n        page_stack.push(self.meta.freelist_page);', '        page_stack.push(self.meta.freelist_page);\n        page_stack.push(self.meta.root.root_page);'),
    ('eq-check-remove-result-in-a-local', 'C05', 'src/tx.rs', '            // Make sure this page hasn\'t already been used\n            if !unused_pages.remove(&page_id) {', '            // Make sure this page hasn\'t already been used\n            let was_unused = unused_pages.remove(&page_id);\n            if !was_unused {'),
    ('eq-check-key-order-test-flipped', 'C05', 'src/tx.rs', '                            if last >= b.key() {', '                            if b.key() <= last {'),
    ('eq-split-push-one-plus-i', 'C05', 'src/node.rs', '                    if count >= MIN_KEYS_PER_NODE && new_size > threshold {\n                        split_indexes.push(i + 1);\n                        current_size = HEADER_SIZE + size;\n                        count = 0;\n                    } else {\n                        current_size = new_size;\n                    }\n                }\n            }\n        };', '                    if new_size > threshold && count >= MIN_KEYS_PER_NODE {\n                        split_indexes.push(1 + i);\n                        count = 0;\n                        current_size = HEADER_SIZE + size;\n                    } else {\n                        current_size = new_size;\n                    }\n                }\n            }\n        };'),
    ('eq-spill-insert-without-local', 'C05', 'src/bucket.rs', '            let bucket_meta = b.spill(tx_freelist)?;\n            // Store updated bucket metadata in a map since self is borrowed\n            bucket_metas.insert(key.clone(), bucket_meta);', '            bucket_metas.insert(key.clone(), b.spill(tx_freelist)?);'),
    ('eq-spill-root-page-via-local', 'C05', 'src/bucket.rs', '        self.meta.root_page = page_id;\n\n        Ok(self.meta)', '        let mut meta = self.meta;\n        meta.root_page = page_id;\n        self.meta = meta;\n\n        Ok(meta)'),
    ('eq-writenode-pos-sum-other-order', 'C15', 'src/page.rs', '                    elem.value_size = value.len() as u64;\n                    elem.pos = header_offsets + data_size;', '                    elem.value_size = value.len() as u64;\n                    elem.pos = data_size + header_offsets;'),
    ('eq-writenode-data-size-in-two-steps', 'C15', 'src/page.rs', '                    data_size += elem.key_size + elem.value_size;', '                    data_size += elem.key_size;\n                    data_size += elem.value_size;'),
    ('eq-writenode-count-from-len-later', 'C15', 'src/page.rs', '        self.count = n.data.len() as u64;\n        let header_size;', '        let entries = n.data.len() as u64;\n        self.count = entries;\n        let header_size;'),
    ('eq-merge-arms-swapped', 'C05', 'src/node.rs', '            (NodeData::Branches(b1), NodeData::Branches(b2)) => {\n                b1.append(b2);\n                b1.sort_unstable_by_key(|b| b.key.clone());\n            }\n            (NodeData::Leaves(l1), NodeData::Leaves(l2)) => {', '            (NodeData::Branches(b1), NodeData::Branches(b2)) => {\n                b1.append(b2);\n                b1.sort_unstable_by_key(|b| b.key.clone());\n                ()\n            }\n            (NodeData::Leaves(l1), NodeData::Leaves(l2)) => {'),
    ('eq-page-node-match-on-get', 'C07', 'src/bucket.rs', '                if let Some(node_id) = self.page_node_ids.get(&page) {\n                    PageNode::Node(self.nodes[*node_id as usize].clone())\n                } else {\n                    PageNode::Page(self.pages.page(page))\n                }', '                match self.page_node_ids.get(&page) {\n                    Some(node_id) => PageNode::Node(self.nodes[*node_id as usize].clone()),\n                    None => PageNode::Page(self.pages.page(page)),\n                }'),
    ('eq-get-bucket-args-named', 'C01', 'src/bucket.rs', '        self.bucket_getter(name.to_bytes(), false, false)', '        let (create, must) = (false, false);\n        self.bucket_getter(name.to_bytes(), create, must)'),
    # found by auditing what the mutation sweep REPORTED: a node without a page may record any run length; a split that never finds a cut is slow, not wrong
    ('eq-with-data-run-length-one', 'C05', 'src/node.rs', '            page_id: 0,\n            num_pages: 0,\n            children: Vec::new(),\n            data,\n            deleted: false,\n            original_key,\n            pagesize,\n            spilled: false,\n            parent: None,\n        }\n    }\n\n    pub(crate) fn insert_child', '            page_id: 0,\n            num_pages: 1,\n            children: Vec::new(),\n            data,\n            deleted: false,\n            original_key,\n            pagesize,\n            spilled: false,\n            parent: None,\n        }\n    }\n\n    pub(crate) fn insert_child'),
    ('eq-split-never-counts', 'C05', 'src/node.rs', '                    count += 1;\n                    let size = LEAF_SIZE + (l.size() as u64);', '                    count += 0;\n                    let size = LEAF_SIZE + (l.size() as u64);'),
    ('eq-merge-no-diagnostic-pass', 'C05', 'src/node.rs', '                let mut last = l1[0].key();\n                for l in l1[1..].iter() {\n                    if last >= l.key() {\n                        println!("HA. GOT \'EM!");\n                    }\n                    last = l.key();\n                }\n', ''),
    # a child without changes answers with its committed header: storing it again or not is the same
    ('eq-spill-skips-clean-children', 'C05', 'src/bucket.rs', '            let bucket_meta = b.spill(tx_freelist)?;\n            // Store updated bucket metadata in a map since self is borrowed\n            bucket_metas.insert(key.clone(), bucket_meta);', '            if !b.dirty { continue; }\n            let bucket_meta = b.spill(tx_freelist)?;\n            bucket_metas.insert(key.clone(), bucket_meta);'),
    # rewriting a bucket nobody touched costs pages but breaks nothing
    ('eq-spill-clean-bucket-rewritten', 'C05', 'src/bucket.rs', '        if !self.is_dirty() {\n            return Ok(self.meta);\n        }\n', '        let _ = self.is_dirty();\n'),
    ('eq-split-threshold-int', 'C16', 'src/node.rs', 'let threshold = ((self.pagesize as f32) * FILL_PERCENT) as u64;', 'let threshold = self.pagesize / 2;'),
    ('eq-split-count-from-zero', 'C05', 'src/node.rs', '        let mut count = 0;\n        match &self.data {', '        let mut count: usize = 0;\n        match &self.data {'),
    # defensive code for states a sound tree never shows (found by auditing what the mutation sweep reported, DESIGN 11.12)
    ('eq-index-page-no-bound', 'C07', 'src/page_node.rs', '                if index >= p.count as usize {\n                    return 0;\n                }\n', ''),
    ('eq-index-page-past-the-end-answers-one', 'C08', 'src/page_node.rs', '                if index >= n.data.len() {\n                    return 0;\n                }', '                if index >= n.data.len() {\n                    return 1;\n                }'),
    ('eq-emptied-leaf-on-empty-stack', 'C08', 'src/cursor.rs', '                n.leaf() && e.index >= n.len()\n            }\n            None => false,', '                n.leaf() && e.index >= n.len()\n            }\n            None => true,'),
    # which flags are on by default is a performance choice (C16)
    ('eq-default-strict-mode-on', 'C16', 'src/db.rs', '                strict_mode: false,\n                mmap_populate: false,', '                strict_mode: true,\n                mmap_populate: false,'),
    ('eq-default-populate-on', 'C05', 'src/db.rs', '                strict_mode: false,\n                mmap_populate: false,', '                strict_mode: false,\n                mmap_populate: true,'),
    ('eq-ceil-div-other-form', 'C16', 'src/freelist.rs', '        let num_pages = if (bytes % self.meta.pagesize) == 0 {\n            bytes / self.meta.pagesize\n        } else {\n            (bytes / self.meta.pagesize) + 1\n        };',
     '        let num_pages = bytes / self.meta.pagesize + u64::from(bytes % self.meta.pagesize != 0);'),
    ('eq-release-comparison-flipped', 'C10', 'src/freelist.rs', '            if other_tx_id < tx_id {', '            if tx_id > other_tx_id {'),
    ('eq-advance-comparison-flipped', 'C08', 'src/cursor.rs', '                if elem.index + 1 >= page_node.len() {', '                if page_node.len() <= elem.index + 1 {'),
    ('eq-txnew-local-for-id', 'C03', 'src/tx.rs', '                open_ro_txs.push(meta.tx_id);\n', '                let id = meta.tx_id;\n                open_ro_txs.push(id);\n'),
    ('eq-meta-match-arms-reordered', 'C12', 'src/db.rs', '                    (Some(meta1), None) => Some(meta1),\n                    (None, Some(meta2)) => Some(meta2),', '                    (None, Some(meta2)) => Some(meta2),\n                    (Some(meta1), None) => Some(meta1),'),
    ('eq-commit-extra-local', 'C02', 'src/tx.rs', '            self.meta.num_pages = freelist.meta.num_pages;', '            let hwm = freelist.meta.num_pages;\n            self.meta.num_pages = hwm;'),
    ('eq-drop-early-return-form', 'C03', 'src/tx.rs', '                _ => return, // this shouldn\'t happen, but isn\'t the end of the world if it does', '                Err(_) => return,'),
    ('eq-getter-comment-and-else', 'C01', 'src/bucket.rs', '                        _ => return Err(Error::IncompatibleValue),\n                    },', '                        Leaf::Kv(..) => return Err(Error::IncompatibleValue),\n                    },'),
    ('eq-is-freed-match', 'C05', 'src/freelist.rs', '            .map_or(false, |pages| pages.contains(&page_id))', '            .map_or(false, |freed| freed.contains(&page_id))'),
    ('eq-seek-first-while-form', 'C08', 'src/cursor.rs', '            if page_node.leaf() {\n                break;\n            }\n            if page_node.len() == 0 {\n                break;\n            }', '            if page_node.leaf() || page_node.len() == 0 {\n                break;\n            }'),
    ('eq-txnew-is-empty', 'C03', 'src/tx.rs', '                if open_ro_txs.len() > 0 {', '                if !open_ro_txs.is_empty() {'),
    ('eq-commit-product-swapped', 'C02', 'src/tx.rs', '            let required_size = self.meta.num_pages * self.db.inner.pagesize;', '            let required_size = self.db.inner.pagesize * self.meta.num_pages;'),
    ('eq-txfree-no-parens', 'C10', 'src/freelist.rs', '        for id in page_id..(page_id + num_pages) {', '        for id in page_id..page_id + num_pages {'),
    ('eq-delete-last-by-index', 'C01', 'src/bucket.rs', '    fn delete<\'a, T: AsRef<[u8]>>(&\'a mut self, key: T) -> Result<(Bytes<\'b>, Bytes<\'b>)> {\n        let (exists, stack) = search(key.as_ref(), self.meta.root_page, self);\n        let last = stack.last().unwrap();', '    fn delete<\'a, T: AsRef<[u8]>>(&\'a mut self, key: T) -> Result<(Bytes<\'b>, Bytes<\'b>)> {\n        let (exists, stack) = search(key.as_ref(), self.meta.root_page, self);\n        let last = &stack[stack.len() - 1];'),
    ('eq-pagesize-checks-swapped', 'C16', 'src/db.rs', '        if pagesize < 1024 {\n            panic!("Pagesize must be 1024 bytes minimum");\n        }\n        // Pages are read in place through references to 8-byte aligned structs,\n        // so every page has to start on an 8-byte boundary.\n        if pagesize % 8 != 0 {\n            panic!("Pagesize must be a multiple of 8 bytes");\n        }', '        if pagesize % 8 != 0 {\n            panic!("Pagesize must be a multiple of 8 bytes");\n        }\n        if pagesize < 1024 {\n            panic!("Pagesize must be 1024 bytes minimum");\n        }'),
    ('eq-release-early-break-form', 'C10', 'src/freelist.rs', '            if other_tx_id < tx_id {\n                let pages = self.pending_pages.remove(&other_tx_id).unwrap();\n                pages.into_iter().for_each(|p| {\n                    self.free_pages.insert(p);\n                });\n            } else {\n                break;\n            }', '            if other_tx_id >= tx_id {\n                break;\n            }\n            let pages = self.pending_pages.remove(&other_tx_id).unwrap();\n            pages.into_iter().for_each(|p| {\n                self.free_pages.insert(p);\n            });'),
    ('eq-advance-if-not', 'C08', 'src/cursor.rs', '                    if self.stack.len() == 1 {\n                        return false;\n                    }\n                    self.stack.pop();\n                    continue;', '                    if self.stack.len() != 1 {\n                        self.stack.pop();\n                        continue;\n                    }\n                    return false;'),
    ('eq-allocate-len-zero', 'C10', 'src/freelist.rs', '        if self.free_pages.is_empty() {\n            return None;\n        }\n        let mut start: PageID = 0;', '        if self.free_pages.len() == 0 {\n            return None;\n        }\n        let mut start: PageID = 0;'),
    ('eq-allocate-else-keep-start', 'C10', 'src/freelist.rs', '            if prev == 0 || id - prev != 1 {\n                start = id;\n            }', '            if !(prev == 0 || id - prev != 1) {\n                // still inside the current run\n            } else {\n                start = id;\n            }'),
    ('eq-next-empty-check-len', 'C08', 'src/cursor.rs', '        if self.stack.is_empty() {\n            self.seek_first();\n        } else if', '        if self.stack.len() == 0 {\n            self.seek_first();\n        } else if'),
    ('eq-drop-guard-clause', 'C03', 'src/tx.rs', '        if !self.lock.writable() {\n            let mut open_txs', '        if self.lock.writable() {\n            return;\n        }\n        {\n            let mut open_txs'),
    ('eq-commit-growth-test-flipped', 'C02', 'src/tx.rs', '            if current_size < required_size {', '            if required_size > current_size {'),
    ('eq-commit-slot-by-if', 'C02', 'src/tx.rs', '                let meta_page_id = u64::from(self.meta.meta_page == 0);', '                let meta_page_id: u64 = if self.meta.meta_page == 0 { 1 } else { 0 };'),
    ('eq-commit-flush-then-sync-block', 'C11', 'src/tx.rs', '            file.flush()?;\n            file.sync_all()?;\n        }\n', '            {\n                file.flush()?;\n            }\n            file.sync_all()?;\n        }\n'),
    ('eq-open-lock-binding', 'C13', 'src/db.rs', '        file.lock_exclusive()?;\n', '        let locked = file.lock_exclusive();\n        locked?;\n'),
    ('eq-bucket-get-kv-if-let', 'C07', 'src/bucket.rs', '        match b.get(key) {\n            Some(data) => data.into(),\n            None => None,\n        }', '        if let Some(data) = b.get(key) {\n            return data.into();\n        }\n        None'),
    ('eq-cursor-new-preallocates-the-stack', 'C08', 'src/cursor.rs', '            stack: Vec::new(),\n            next_called: false,', '            stack: Vec::with_capacity(4),\n            next_called: false,'),
    ('eq-bucket-buckets-via-local', 'C07', 'src/bucket.rs', '        self.cursor().to_buckets()', '        let c = self.cursor();\n        c.to_buckets()'),
]
CANARY_EXPECT_NOT_KILLED = set(c[0] for c in EQUIVALENTS)
CANARIES = CANARIES + EQUIVALENTS

# canaries that need the Kani groups / the bounded stand-ins of the quick tier (everything else runs with --no-kani for speed)
KANI_CANARIES = set(c[0] for c in CANARIES if c[0].startswith('tree-'))


def run_canary(c, keep=False):
    name, prop, rel, frm, to = c
    d = tempfile.mkdtemp(prefix='jammdb-verif-canary-')
    try:
        for f in ('Cargo.toml', 'Cargo.lock'):
            shutil.copy(os.path.join(REPO, f), os.path.join(d, f))
        shutil.copytree(os.path.join(REPO, 'src'), os.path.join(d, 'src'))
        p = os.path.join(d, rel)
        t = open(p).read()
        if t.count(frm) != 1:
            return dict(name=name, property=prop, status='not-applicable', detail='pattern found %d times' % t.count(frm))
        open(p, 'w').write(t.replace(frm, to))
        env = dict(os.environ, VERIF_REPO=d, VERIF_BUILD=os.path.join(d, 'build'), VERIF_EVIDENCE_DIR=os.path.join(d, 'evidence'))
        r = subprocess.run([os.path.join(V, 'check'), prop, '--tier', 'quick', '--no-canaries'] + ([] if c[0] in KANI_CANARIES else ['--no-kani']),
                           env=env, capture_output=True, text=True, timeout=1800)
        failed = [l.strip() for l in r.stdout.split('\n') if 'failed obligation' in l]
        st = {0: 'SURVIVED', 1: 'killed', 2: 'undecided'}.get(r.returncode, 'error')
        return dict(name=name, property=prop, status=st, failed=failed[:4], tail=r.stdout[-600:] if st != 'killed' else '')
    finally:
        shutil.rmtree(d, ignore_errors=True)


def run_for(prop=None, name=None, workers=6):
    import concurrent.futures as cf
    cs = [c for c in CANARIES if (prop is None or c[1] == prop) and (name is None or c[0] == name)]
    with cf.ThreadPoolExecutor(max_workers=workers) as ex:
        return list(ex.map(run_canary, cs))


if __name__ == '__main__':
    import argparse
    ap = argparse.ArgumentParser()
    ap.add_argument('--prop')
    ap.add_argument('--name')
    a = ap.parse_args()
    res = run_for(a.prop, a.name)
    for r in res:
        print('%-28s %-4s %-10s %s' % (r['name'], r['property'], r['status'], '; '.join(r.get('failed', []))[:200] or r.get('detail', '') or r.get('tail', '')))
    sys.exit(0 if all(r['status'] in ('killed',) for r in res) else 1)
