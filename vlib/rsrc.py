"""Minimal Rust source scanner used by the extractor.

No third-party parser: a comment / string / char-literal / lifetime aware masker plus brace
matching.  `mask(text)` returns a string of the same length in which the *contents* of comments,
string literals and char literals are replaced by spaces (newlines kept), so that regexes and brace
matching can run on the masked text while copies are taken from the original text by offset.
"""
import re


class LostAnchor(Exception):
    """The real source no longer has the shape the contract files expect (=> undecided, exit 2)."""


def mask(text):
    out = list(text)
    i, n = 0, len(text)

    def blank(a, b):
        for k in range(a, min(b, n)):
            if out[k] != '\n':
                out[k] = ' '

    def string_from(q):
        # q = index of the opening quote of a normal (escaped) string; returns index after closing
        j = q + 1
        while j < n and text[j] != '"':
            j += 2 if text[j] == '\\' else 1
        blank(q + 1, j)
        return j + 1

    def raw_from(i0):
        m = re.match(r'(#*)"', text[i0:])
        close = '"' + m.group(1)
        s = i0 + m.end()
        j = text.find(close, s)
        j = n if j < 0 else j
        blank(s, j)
        return j + len(close)

    def char_from(q):
        m = re.match(r"'(\\.[^']*|[^\\'])'", text[q:q + 14])
        if m:
            blank(q + 1, q + m.end() - 1)
            return q + m.end()
        return q + 1          # a lifetime

    while i < n:
        c = text[i]
        if c == '/' and text.startswith('//', i):
            j = text.find('\n', i)
            j = n if j < 0 else j
            blank(i, j)
            i = j
        elif c == '/' and text.startswith('/*', i):
            depth, j = 1, i + 2
            while j < n and depth:
                if text.startswith('/*', j):
                    depth += 1
                    j += 2
                elif text.startswith('*/', j):
                    depth -= 1
                    j += 2
                else:
                    j += 1
            blank(i, j)
            i = j
        elif c == '"':
            i = string_from(i)
        elif c == "'":
            i = char_from(i)
        elif c.isalpha() or c == '_':
            w = re.match(r'[A-Za-z0-9_]+', text[i:]).group(0)
            j = i + len(w)
            nxt = text[j] if j < n else ''
            if w == 'b' and nxt == '"':
                i = string_from(j)
            elif w == 'b' and nxt == "'":
                i = char_from(j)
            elif w in ('r', 'br') and re.match(r'#*"', text[j:j + 10]) and (nxt == '"' or nxt == '#'):
                i = raw_from(j)
            else:
                i = j
        else:
            i += 1
    return ''.join(out)


def match_brace(masked, open_idx):
    """index of the bracket matching masked[open_idx] (one of ( [ { )."""
    pairs = {'(': ')', '[': ']', '{': '}'}
    o = masked[open_idx]
    c = pairs[o]
    depth = 0
    for k in range(open_idx, len(masked)):
        ch = masked[k]
        if ch == o:
            depth += 1
        elif ch == c:
            depth -= 1
            if depth == 0:
                return k
    raise LostAnchor('unbalanced %s at offset %d' % (o, open_idx))


def line_of(text, idx):
    return text.count('\n', 0, idx) + 1


def _strip_lifetime_generics(s):
    # remove <...> groups that hold only lifetimes; collapse whitespace
    prev = None
    while prev != s:
        prev = s
        s = re.sub(r"<\s*'[a-z_]+(\s*,\s*'[a-z_]+)*\s*>", '', s)
    return re.sub(r'\s+', ' ', s).strip()


def _impl_key(header):
    """header = text between `impl` and `{`.  -> (trait or None, self type ident)"""
    h = header.strip()
    if h.startswith('<'):
        depth = 0
        for k, ch in enumerate(h):
            if ch == '<':
                depth += 1
            elif ch == '>' and h[k - 1] != '-':
                depth -= 1
                if depth == 0:
                    h = h[k + 1:]
                    break
    h = re.split(r'\bwhere\b', h)[0]
    h = _strip_lifetime_generics(h)
    trait = None
    m = re.match(r'(.*?)\s+for\s+(.*)$', h)
    if m:
        trait, h = m.group(1).replace(' ', ''), m.group(2)
    im = re.match(r'\s*&?\s*([A-Za-z_][A-Za-z0-9_]*)', h)
    ident = im.group(1) if im else re.sub(r'\s+', '', h)      # e.g. `[u8; N]`, `&[u8]`
    return trait, ident


class Source:
    def __init__(self, path):
        self.path = path
        self.text = open(path).read()
        self.masked = mask(self.text)
        # cut off `#[cfg(test)] mod ... { }` blocks: test code is never extracted
        self.test_ranges = []
        for m in re.finditer(r'#\[cfg\(test\)\]\s*(pub\s+)?mod\s+\w+\s*\{', self.masked):
            ob = m.end() - 1
            self.test_ranges.append((m.start(), match_brace(self.masked, ob)))

    def in_test(self, idx):
        return any(a <= idx <= b for a, b in self.test_ranges)

    def impls(self):
        for m in re.finditer(r'(?m)^[ \t]*(unsafe\s+)?impl\b', self.masked):
            if self.in_test(m.start()):
                continue
            ob = self.masked.find('{', m.end())
            header = self.masked[m.end():ob]
            yield _impl_key(header), ob, match_brace(self.masked, ob)

    def _find_fn_in(self, name, lo, hi, depth_open=None):
        """find `fn name` whose enclosing brace is exactly the block (lo,hi) (or top level)."""
        hits = []
        for m in re.finditer(r'\bfn\s+' + re.escape(name) + r'\b', self.masked[lo:hi]):
            idx = lo + m.start()
            if self.in_test(idx):
                continue
            # depth relative to lo
            seg = self.masked[lo:idx]
            if seg.count('{') - seg.count('}') != (1 if depth_open else 0):
                continue
            hits.append(idx)
        return hits

    def find_fn(self, spec):
        """spec: `name` (free fn) | `Type::name` | `<Trait for Type>::name`.
        returns dict(sig_start, body_open, body_close, item_start)"""
        m = re.match(r'^<(.+)\s+for\s+(\w+)>::(\w+)$', spec)
        want = None
        if m:
            want = (m.group(1).replace(' ', ''), m.group(2))
            name = m.group(3)
        elif '::' in spec:
            t, name = spec.split('::')
            want = (None, t)
        else:
            name = spec
        hits = []
        if want is None:
            hits = self._find_fn_in(name, 0, len(self.masked))
        else:
            for key, ob, cb in self.impls():
                k = (key[0], key[1])
                if k == want:
                    hits += self._find_fn_in(name, ob, cb, depth_open=True)
        if len(hits) != 1:
            raise LostAnchor('%s: fn %s found %d times' % (self.path, spec, len(hits)))
        fn_idx = hits[0]
        # item start: go back over visibility / qualifiers / attributes / doc comments
        line_start = self.text.rfind('\n', 0, fn_idx) + 1
        item_start = line_start
        while True:
            prev_end = item_start - 1
            if prev_end <= 0:
                break
            prev_start = self.text.rfind('\n', 0, prev_end) + 1
            pl = self.text[prev_start:prev_end].strip()
            if pl.startswith('#[') or pl.startswith('///') or pl.startswith('#!['):
                item_start = prev_start
            else:
                break
        # body open: first `{` at paren depth 0 after fn_idx that is not inside <> of where-clauses:
        k = fn_idx
        depth = 0
        while True:
            ch = self.masked[k]
            if ch in '([':
                depth += 1
            elif ch in ')]':
                depth -= 1
            elif ch == '{' and depth == 0:
                break
            elif ch == ';' and depth == 0:
                raise LostAnchor('%s: fn %s has no body' % (self.path, spec))
            k += 1
        return dict(item_start=item_start, fn_idx=fn_idx, body_open=k,
                    body_close=match_brace(self.masked, k))

    def find_item(self, kind, name):
        """struct / enum / const / type / static at top level."""
        if kind in ('struct', 'enum', 'union'):
            pat = r'(?m)^[ \t]*(pub(\([a-z]+\))?\s+)?' + kind + r'\s+' + re.escape(name) + r'\b'
        elif kind in ('const', 'static', 'type'):
            pat = r'(?m)^[ \t]*(pub(\([a-z]+\))?\s+)?' + kind + r'\s+' + re.escape(name) + r'\b'
        else:
            raise ValueError(kind)
        hits = [m for m in re.finditer(pat, self.masked) if not self.in_test(m.start())]
        if len(hits) != 1:
            raise LostAnchor('%s: %s %s found %d times' % (self.path, kind, name, len(hits)))
        m = hits[0]
        start = m.start()
        # end: for struct/enum with braces -> matching brace; tuple struct / const / type -> `;`
        k = m.end()
        depth = 0
        while True:
            ch = self.masked[k]
            if ch in '([<' and not (ch == '<' and self.masked[k - 1] == '-'):
                depth += 1 if ch != '<' else 0
            elif ch in ')]':
                depth -= 1
            elif ch == '{' and depth == 0:
                end = match_brace(self.masked, k) + 1
                break
            elif ch == ';' and depth == 0:
                end = k + 1
                break
            k += 1
        # leading attributes / docs
        item_start = self.text.rfind('\n', 0, start) + 1
        attrs_start = item_start
        while True:
            prev_end = attrs_start - 1
            if prev_end <= 0:
                break
            prev_start = self.text.rfind('\n', 0, prev_end) + 1
            pl = self.text[prev_start:prev_end].strip()
            if pl.startswith('#[') or pl.startswith('///') or pl.startswith('//'):
                attrs_start = prev_start
            else:
                break
        return dict(attrs_start=attrs_start, start=item_start, end=end)


def tokens(s):
    """coarse tokenisation for signature comparison"""
    return re.findall(r"[A-Za-z_][A-Za-z0-9_]*|'[a-z_]+|\d+|->|=>|::|[^\sA-Za-z0-9_]", s)
