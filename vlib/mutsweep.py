"""Mutation sweep against the checks themselves (development aid, not part of any registered command).

Generates small syntactic mutants of /repo/src (outside `#[cfg(test)]` modules, comments and strings), keeps those that
still compile AND pass the repository's own test suite, and runs every quick check on each of them (scratch copies,
VERIF_REPO / VERIF_BUILD / VERIF_EVIDENCE_DIR overrides, nothing in /repo or /verif/build is touched).

A mutant on which every check answers exit 0 is either equivalent or a blind spot; the list is written to
<out>/undetected.jsonl for manual triage.

usage: python3 vlib/mutsweep.py --out DIR [--seed N] [--per-file K] [--jobs J] [--files a.rs,b.rs]
"""
import argparse
import json
import os
import random
import re
import shutil
import subprocess
import sys
import tempfile
import concurrent.futures as cf

sys.path.insert(0, os.path.dirname(os.path.abspath(__file__)))
from rsrc import mask  # noqa: E402

VERIF = os.path.dirname(os.path.dirname(os.path.abspath(__file__)))
REPO = os.environ.get('VERIF_REPO', '/repo')

OPS = [
    (r'(?<![<>=!-])<(?![<=])', '<='), (r'<=', '<'), (r'(?<![-=>])>(?![>=])', '>='), (r'>=', '>'),
    (r'==', '!='), (r'!=', '=='), (r'&&', '||'), (r'\|\|', '&&'),
    (r'\+ 1\b', '+ 2'), (r'\+ 1\b', ''), (r'- 1\b', ''), (r'\b0\b', '1'), (r'\b1\b', '0'),
    (r'\btrue\b', 'false'), (r'\bfalse\b', 'true'),
    (r'\.is_empty\(\)', '.len() == 1'), (r'\.min\(', '.max('), (r'\.max\(', '.min('),
]


def test_regions(text):
    """char ranges of `#[cfg(test)] mod … { … }`"""
    out = []
    m = mask(text)
    for h in re.finditer(r'#\[cfg\(test\)\]\s*(pub\s+)?mod\s+\w+\s*\{', m):
        depth, i = 0, h.end() - 1
        while i < len(m):
            if m[i] == '{':
                depth += 1
            elif m[i] == '}':
                depth -= 1
                if depth == 0:
                    break
            i += 1
        out.append((h.start(), i + 1))
    return out


def candidates(rel, text):
    m = mask(text)
    tr = test_regions(text)
    res = []
    for pat, rep in OPS:
        for h in re.finditer(pat, m):
            if any(a <= h.start() < b for a, b in tr):
                continue
            ls = text.rfind('\n', 0, h.start()) + 1
            le = text.find('\n', h.start())
            line = text[ls:le]
            if re.match(r'\s*(//|#\[|use |pub use |const |pub const |pub\(crate\) const |type )', line):
                continue
            if 'debug_assert' in line or 'assert!' in line or 'assert_eq!' in line or 'panic!' in line or 'println!' in line:
                continue
            # generic brackets / arrows are not comparisons
            if pat in (r'(?<![<>=!-])<(?![<=])', r'(?<![-=>])>(?![>=])') and not re.search(r'\s[<>]\s', text[max(0, h.start() - 1):h.end() + 1]):
                continue
            res.append(dict(file=rel, pos=h.start(), end=h.end(), rep=rep, line=text[:h.start()].count('\n') + 1,
                            before=line.strip(), after=(text[ls:h.start()] + rep + text[h.end():le]).strip()))
    # statement deletion: a line that is a single call statement
    for h in re.finditer(r'^[ \t]+[a-z_][\w.]*(\(.*\))?\.[a-z_]\w*\(.*\);[ \t]*$', m, re.M):
        if any(a <= h.start() < b for a, b in tr):
            continue
        line = text[h.start():h.end()]
        if re.search(r'\b(let|return|assert|panic|println)\b', line):
            continue
        res.append(dict(file=rel, pos=h.start(), end=h.end(), rep='', line=text[:h.start()].count('\n') + 1,
                        before=line.strip(), after='(statement deleted)'))
    return res


def run(cmd, cwd, env=None, timeout=900):
    try:
        p = subprocess.run(cmd, cwd=cwd, env=env, capture_output=True, text=True, timeout=timeout)
        return p.returncode, p.stdout + p.stderr
    except subprocess.TimeoutExpired:
        return 124, 'TIMEOUT'


def one(mut, idx, out, props, keep_target):
    d = tempfile.mkdtemp(prefix='jammdb-verif-mut-')
    try:
        for f in ('Cargo.toml', 'Cargo.lock'):
            shutil.copy(os.path.join(REPO, f), os.path.join(d, f))
        shutil.copytree(os.path.join(REPO, 'src'), os.path.join(d, 'src'))
        shutil.copytree(os.path.join(REPO, 'tests'), os.path.join(d, 'tests'))
        p = os.path.join(d, mut['file'])
        t = open(p).read()
        open(p, 'w').write(t[:mut['pos']] + mut['rep'] + t[mut['end']:])
        env = dict(os.environ, CARGO_NET_OFFLINE='true', CARGO_TARGET_DIR=keep_target)
        rc, o = run(['cargo', 'build', '--offline', '--lib'], d, env, 600)
        if rc != 0:
            return dict(mut, idx=idx, status='does-not-compile')
        rc, o = run(['cargo', 'test', '--offline'], d, env, 900)
        if rc != 0:
            return dict(mut, idx=idx, status='killed-by-suite')
        # the suite passes: what do the checks say?
        res = {}
        bd = os.path.join(d, 'vb')
        ed = os.path.join(d, 've')
        for pid in props:
            env2 = dict(os.environ, VERIF_REPO=d, VERIF_BUILD=bd, VERIF_EVIDENCE_DIR=ed)
            rc, o = run([os.path.join(VERIF, 'check'), pid, '--no-canaries'], VERIF, env2, 1500)
            res[pid] = rc
            if rc == 1:
                break       # one alarm is enough
        st = 'detected' if 1 in res.values() else ('undecided-only' if 2 in res.values() else 'UNDETECTED')
        return dict(mut, idx=idx, status=st, checks=res)
    finally:
        shutil.rmtree(d, ignore_errors=True)


def main():
    ap = argparse.ArgumentParser()
    ap.add_argument('--out', required=True)
    ap.add_argument('--seed', type=int, default=1)
    ap.add_argument('--per-file', type=int, default=12)
    ap.add_argument('--jobs', type=int, default=3)
    ap.add_argument('--files', default='')
    a = ap.parse_args()
    os.makedirs(a.out, exist_ok=True)
    sys.path.insert(0, os.path.join(VERIF, 'vlib'))
    from props import PROPS
    props = sorted(PROPS)
    rnd = random.Random(a.seed)
    files = [f for f in sorted(os.listdir(os.path.join(REPO, 'src'))) if f.endswith('.rs') and f not in ('testutil.rs', 'lib.rs')]
    if a.files:
        files = [f for f in files if f in a.files.split(',')]
    muts = []
    for f in files:
        rel = os.path.join('src', f)
        c = candidates(rel, open(os.path.join(REPO, rel)).read())
        rnd.shuffle(c)
        muts += c[:a.per_file]
    print('%d mutants' % len(muts), flush=True)
    logf = open(os.path.join(a.out, 'results.jsonl'), 'a')
    # order the properties so that the most likely detectors come first (cheap heuristic: by unit count is not known here)
    with cf.ThreadPoolExecutor(max_workers=a.jobs) as ex:
        futs = []
        for i, m in enumerate(muts):
            tgt = os.path.join(VERIF, '.cache', 'mut-target-%d' % (i % a.jobs))
            futs.append(ex.submit(one, m, i, a.out, props, tgt))
        for fu in cf.as_completed(futs):
            r = fu.result()
            logf.write(json.dumps(r) + '\n')
            logf.flush()
            print('%4d %-18s %s:%d  %s  =>  %s   %s' % (r['idx'], r['status'], r['file'], r['line'], r['before'][:70], r['after'][:70], r.get('checks', '')), flush=True)
            if r['status'] == 'UNDETECTED':
                open(os.path.join(a.out, 'undetected.jsonl'), 'a').write(json.dumps(r) + '\n')


if __name__ == '__main__':
    main()
