"""Bounded search for a failing input of the real code after a Verus obligation failed (DESIGN 2.5).

Verus gives no counterexample.  For the functions listed in /verif/cex/*.rs an executable version of the contract
is run on the real crate (scratch copy, test module appended, nothing else touched) over a small input grid;
a failing input, if found, is attached to the replay file and the VIOLATION line then does not end with
`no-failing-input-found`.  Finding nothing proves nothing (the grid is small)."""
import glob
import os
import re
import shutil
import subprocess
import tempfile

from gen import VERIF, REPO

_cache = {}


def _groups():
    out = []
    for f in sorted(glob.glob(os.path.join(VERIF, 'cex', '*.rs'))):
        t = open(f).read()
        app = re.search(r'//@append (\S+)', t).group(1)
        cov = re.search(r'//@covers (.*)', t).group(1).split()
        shim = re.search(r'//@shim (\S+)', t)
        out.append(dict(file=f, append=app, covers=cov, body=t, shim=shim.group(1) if shim else None))
    return out


def search(pid, fl):
    key = fl.fn.split('::')[0] if fl.fn else ''
    g = next((g for g in _groups() if fl.fn in g['covers']), None)
    if g is None:
        return dict(found=False, text='no executable oracle is registered for %s (cex/*.rs); no failing input searched' % fl.fn)
    return run_group(g)


def groups_for_unit(unit_name):
    """oracle groups that cover a function verified (//@fn) in the given unit"""
    t = open(os.path.join(VERIF, 'contracts', unit_name + '.vtmpl')).read()
    fns = set(re.findall(r'^//@fn (\S+)', t, re.M))
    return [g for g in _groups() if fns & set(g['covers'])]


class _CacheLock:
    """checks may run side by side (16 cores): the shared cargo target directory of the oracles is used by one of them at a time
    (cargo's own lock covers the compilation only, not the run of the binary it has just written)"""
    def __init__(self, name):
        os.makedirs(os.path.join(VERIF, '.cache'), exist_ok=True)
        self.path = os.path.join(VERIF, '.cache', name + '.lock')

    def __enter__(self):
        import fcntl
        self.fh = open(self.path, 'w')
        fcntl.flock(self.fh, fcntl.LOCK_EX)
        return self

    def __exit__(self, *a):
        import fcntl
        fcntl.flock(self.fh, fcntl.LOCK_UN)
        self.fh.close()


def run_group(g):
    if g['file'] in _cache:
        return _cache[g['file']]
    with _CacheLock('cex-target'):
        return _run_group_locked(g)


def _run_group_locked(g):
    d = tempfile.mkdtemp(prefix='jammdb-verif-cex-')
    try:
        for f in ('Cargo.toml', 'Cargo.lock'):
            shutil.copy(os.path.join(REPO, f), os.path.join(d, f))
        shutil.copytree(os.path.join(REPO, 'src'), os.path.join(d, 'src'))
        with open(os.path.join(d, g['append']), 'a') as fh:
            fh.write('\n' + g['body'])
        env = dict(os.environ, CARGO_NET_OFFLINE='true', CARGO_TARGET_DIR=os.path.join(VERIF, '.cache', 'cex-target'))
        pre = None
        if g.get('shim'):
            # fault-injection / tracing shim: built here, preloaded into the test binary only
            so = os.path.join(d, 'ioshim.so')
            subprocess.run(['clang', '-shared', '-fPIC', '-O1', '-o', so, os.path.join(VERIF, g['shim']), '-ldl'], check=True, capture_output=True)
            subprocess.run(['cargo', 'test', '--offline', '--lib', '--no-run'], cwd=d, env=env, capture_output=True, text=True, timeout=900)
            open(os.path.join(d, 'io.log'), 'w').close()
            open(os.path.join(d, 'io.ctl'), 'w').write('-1')
            env = dict(env, IOSHIM_LOG=os.path.join(d, 'io.log'), IOSHIM_CTL=os.path.join(d, 'io.ctl'), IOSHIM_MATCH='.verifdb', LD_PRELOAD=so)
        cmd = ['cargo', 'test', '--offline', '--lib', 'verif_cex_', '--', '--nocapture', '--test-threads', '1']
        try:
            p = subprocess.run(cmd, cwd=d, env=env, capture_output=True, text=True, timeout=900)
            out = p.stdout + p.stderr
        except subprocess.TimeoutExpired:
            out = 'TIMEOUT'
        cex = [m.group(0) for m in re.finditer(r'CEX [^\n]*', out)]
        if not cex and re.search(r'\(signal: \d+|has overflowed its stack|SIGSEGV|SIGABRT|memory allocation of \d+ bytes failed', out):
            # the library took the whole test process down (stack overflow, abort) while handling an input the oracle had announced
            tr = re.findall(r'TRYING ([^\n]*)', out)
            if tr:
                cex = ['CEX (the test process died: stack overflow / abort inside the library) while handling: ' + tr[-1]]
        res = dict(found=bool(cex),
                   text=('failing input(s) found by running %s on the real crate (scratch copy + appended test module %s):\n%s\n\ncommand: %s\n'
                         % ('`cargo test verif_cex_`', os.path.relpath(g['file'], VERIF), '\n'.join(cex), ' '.join(cmd)))
                   if cex else 'bounded search (%s) found no failing input\n%s' % (os.path.relpath(g['file'], VERIF), out[-600:]))
        _cache[g['file']] = res
        return res
    finally:
        shutil.rmtree(d, ignore_errors=True)
