#!/usr/bin/env python3
"""Development aid (not part of a registered command): re-run the check of every seeded change in /verif/seeded against the
current machinery.  Each seed is applied to a scratch copy of /repo (VERIF_REPO override); expected: exit 1 for every seed.

usage: python3 vlib/seedsweep.py [--jobs N] [--only Sxx,Syy]"""
import argparse, concurrent.futures as cf, glob, json, os, shutil, subprocess, sys, tempfile

V = os.path.dirname(os.path.dirname(os.path.abspath(__file__)))
REPO = os.environ.get('VERIF_REPO', '/repo')


def run(seed_dir):
    meta = json.load(open(os.path.join(seed_dir, 'meta.json')))
    sid, prop = meta['id'], meta['property']
    d = tempfile.mkdtemp(prefix='jammdb-verif-seed-')
    try:
        for f in ('Cargo.toml', 'Cargo.lock'):
            shutil.copy(os.path.join(REPO, f), os.path.join(d, f))
        shutil.copytree(os.path.join(REPO, 'src'), os.path.join(d, 'src'))
        subprocess.run(['git', 'init', '-q', '.'], cwd=d, check=True)
        p = subprocess.run(['git', 'apply', os.path.join(seed_dir, 'patch.diff')], cwd=d, capture_output=True, text=True)
        if p.returncode != 0:
            # the tree has moved on since the seed was written (a later fix: commit in /repo): retry with fuzz
            p = subprocess.run(['patch', '-p1', '-F3', '-s', '-i', os.path.join(seed_dir, 'patch.diff')], cwd=d, capture_output=True, text=True)
        if p.returncode != 0:
            return sid, prop, 'patch-does-not-apply', (p.stdout + p.stderr)[-200:]
        env = dict(os.environ, VERIF_REPO=d, VERIF_BUILD=os.path.join(d, 'build'), VERIF_EVIDENCE_DIR=os.path.join(d, 'evidence'))
        r = subprocess.run([os.path.join(V, 'check'), prop, '--tier', 'quick', '--no-canaries'], env=env, capture_output=True, text=True, timeout=3600)
        failed = [l.strip()[len('failed obligation: '):][:90] for l in r.stdout.split('\n') if 'failed obligation' in l]
        return sid, prop, {0: 'EXIT-0', 1: 'reported', 2: 'EXIT-2'}.get(r.returncode, 'error'), '; '.join(failed[:3])
    finally:
        shutil.rmtree(d, ignore_errors=True)


if __name__ == '__main__':
    ap = argparse.ArgumentParser()
    ap.add_argument('--jobs', type=int, default=3)
    ap.add_argument('--only')
    a = ap.parse_args()
    dirs = sorted(x for x in glob.glob(os.path.join(V, 'seeded', 'S*')) if os.path.exists(os.path.join(x, 'meta.json')) and os.path.exists(os.path.join(x, 'patch.diff')))
    if a.only:
        want = set(a.only.split(','))
        dirs = [x for x in dirs if os.path.basename(x).split('-')[0] in want]
    bad = 0
    with cf.ThreadPoolExecutor(max_workers=a.jobs) as ex:
        for sid, prop, st, detail in ex.map(run, dirs):
            print('%-4s %-4s %-10s %s' % (sid, prop, st, detail), flush=True)
            bad += st != 'reported'
    print('%d seeds, %d not reported' % (len(dirs), bad))
    sys.exit(1 if bad else 0)
