#!/usr/bin/env python3
"""development aid: run one bounded-oracle group (cex/<name>.rs) against VERIF_REPO (default /repo): python3 vlib/runcex.py commit history ..."""
import sys, os
sys.path.insert(0, __import__('os').path.dirname(__import__('os').path.abspath(__file__)))
import cex
for name in sys.argv[1:]:
    g = next(g for g in cex._groups() if os.path.basename(g['file']) == name + '.rs')
    r = cex.run_group(g)
    print(name, 'FOUND' if r['found'] else 'nothing', '\n', r['text'][:1500])
