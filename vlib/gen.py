"""Template expansion: contracts + real function bodies -> one Verus file per unit.

A *contract file* (contracts/fn/<Key>.contract) carries, for one real function:
    //@source <src file> <fn spec>          e.g.  src/freelist.rs Freelist::allocate
    <attributes>                            optional #[verifier::...] lines
    fn sig(...) -> (r: T)                   must match the real signature token for token
        requires ..., ensures ...,
    //@body                                  everything below edits / annotates the real body
    //@replace <RULE> `from` => `to` [xN]    closed list of rewrite rules (DESIGN 2.1), logged
    //@first                                 ghost code right after the opening brace
    //@loop <n> [iter-name]                  invariants for the n-th loop of the (rewritten) body
    //@before `stmt text` [#k]               proof block in front of a real statement
    //@after  `stmt text` [#k]
Contracts never contain executable code; the extractor only ever *adds* ghost text and applies the
logged rewrite rules.

A *unit template* (contracts/<unit>.vtmpl) is a Verus file with directives
    //@include <file under /verif>
    (rule D15: module constants a verified body uses are extracted automatically)
    //@include-swap <A> => <B>        later includes of A (at any depth) read B instead
    //@item <src file> <struct|enum|const|type> <Name>     real definition, visibility/attrs stripped
    //@fn <Key>            the real function with its contract and body
    //@decl <Key>          the same contract, body trusted here because it is proved in another unit
"""
import hashlib
import os
import re

from rsrc import LostAnchor, Source, line_of, mask, match_brace, tokens

VERIF = os.path.dirname(os.path.dirname(os.path.abspath(__file__)))
BUILD = os.environ.get('VERIF_BUILD', os.path.join(VERIF, 'build'))
EVIDENCE = os.environ.get('VERIF_EVIDENCE_DIR', os.path.join(VERIF, 'evidence'))
REPO = os.environ.get('VERIF_REPO', '/repo')

CLAUSE_KW = ('requires', 'ensures', 'recommends', 'decreases', 'no_unwind', 'opens_invariants', 'returns',
             'invariant', 'invariant_except_break')


class Line:
    __slots__ = ('text', 'origin')

    def __init__(self, text, origin):
        self.text = text
        self.origin = origin          # ('T', file, line) | ('S', file, line) | ('G', note)


_sources = {}


def source(rel):
    p = os.path.join(REPO, rel)
    if p not in _sources:
        if not os.path.exists(p):
            raise LostAnchor('source file %s missing' % rel)
        _sources[p] = Source(p)
    return _sources[p]


def flex(anchor):
    """regex matching `anchor` with arbitrary whitespace between tokens"""
    parts = [re.escape(t) for t in anchor.split()]
    return re.compile(r'\s*'.join(parts) if False else r'\s+'.join(parts))


def flex_tok(anchor):
    toks = tokens(anchor)
    # tokens() drops nothing but whitespace; allow optional whitespace between all tokens
    return re.compile(r'\s*'.join(re.escape(t) for t in toks))


# ------------------------------------------------------------------------------------------------
# automatic rules (applied to every extracted body), each application is logged

def strip_macro_messages(body, log, where):
    """D2: assert_eq!(a, b, msg..) -> assert!(a == b); assert!/debug_assert!(c, msg..) -> (c);
    panic!/unreachable!(fmt, args..) -> panic!()/unreachable!().  Only the message is dropped."""
    out = body
    pos = 0
    while True:
        m = re.search(r'\b(assert_eq|assert_ne|debug_assert_eq|debug_assert_ne|assert|debug_assert|panic|unreachable)!\s*\(',
                      mask(out)[pos:])
        if not m:
            break
        start = pos + m.start()
        op = pos + m.end() - 1
        masked = mask(out)
        cl = match_brace(masked, op)
        inner = out[op + 1:cl]
        inner_m = masked[op + 1:cl]
        # split on top-level commas
        args, depth, last = [], 0, 0
        for k, ch in enumerate(inner_m):
            if ch in '([{':
                depth += 1
            elif ch in ')]}':
                depth -= 1
            elif ch == ',' and depth == 0:
                args.append(inner[last:k])
                last = k + 1
        args.append(inner[last:])
        args = [a.strip() for a in args if a.strip()]
        name = m.group(1)
        if name in ('assert_eq', 'debug_assert_eq'):
            new = '%s!(%s == %s)' % ('assert' if name == 'assert_eq' else 'debug_assert', args[0], args[1])
        elif name in ('assert_ne', 'debug_assert_ne'):
            new = '%s!(%s != %s)' % ('assert' if name == 'assert_ne' else 'debug_assert', args[0], args[1])
        elif name in ('assert', 'debug_assert'):
            new = '%s!(%s)' % (name, args[0])
        else:
            new = '%s!()' % name
        old = out[start:cl + 1]
        if new != re.sub(r'\s+', ' ', old) and new != old:
            # keep the number of lines identical so the line map stays exact
            pad = '\n' * old.count('\n')
            log.append(dict(rule='D2', where=where, before=re.sub(r'\s+', ' ', old)[:200], after=new))
            out = out[:start] + new + pad + out[cl + 1:]
            pos = start + len(new)
        else:
            pos = cl + 1
    return out



def generic_rules(body):
    """R1-R7 of DESIGN 2.1 as pattern rules over a function body.  returns edits (a, b, new, rule)."""
    m = mask(body)
    edits = []
    # R1  for x in E.iter().cloned() {   =>   for x in E.iter() { let x = *x;
    for h in re.finditer(r'\bfor\s+(\w+)\s+in\s+([^{;]*?)\s*\.\s*iter\(\)\s*\.\s*cloned\(\)\s*\{', m):
        e = body[h.start(2):h.end(2)]
        edits.append((h.start(), h.end(), 'for %s in %s.iter() { let %s = *%s;' % (h.group(1), e, h.group(1), h.group(1)), 'R1'))
    # R14  for X in E.by_ref() {   =>   loop { let X = match E.next() { Some(v__) => v__, None => break };
    #      (what `for` over a borrowed iterator does; the iterator contract is then the one of E.next())
    for h in re.finditer(r'\bfor\s+(\w+)\s+in\s+([^{;]*?)\s*\.\s*by_ref\(\)\s*\{', m):
        e = body[h.start(2):h.end(2)]
        edits.append((h.start(), h.end(), 'loop { let %s = match %s.next() { Some(v__) => v__, None => break };' % (h.group(1), e), 'R14'))
    # R2  E.for_each(|v| { B });   =>   for v in E { B }      (statement level only)
    for h in re.finditer(r'\.\s*for_each\s*\(', m):
        op = h.end() - 1
        cl = match_brace(m, op)
        inner = body[op + 1:cl]
        cm = re.match(r'^\s*\|\s*(\w+)\s*\|\s*\{(.*)\}\s*$', inner, re.S)
        if not cm:
            cm2 = re.match(r'^\s*\|\s*(\w+)\s*\|\s*([^{].*?)\s*$', inner, re.S)       # expression body
            if cm2:
                class _M:
                    def __init__(s_, a, b): s_.a, s_.b = a, b
                    def group(s_, i): return s_.a if i == 1 else s_.b
                cm = _M(cm2.group(1), ' ' + cm2.group(2) + '; ')
        tail = re.match(r'\s*;', m[cl + 1:])
        if not cm or not tail:
            raise LostAnchor('rule R2: for_each without a `|v| ..` closure statement')
        if re.search(r'\b(return|break|continue)\b|\?', mask(cm.group(2))):
            raise LostAnchor('rule R2 refuses a closure body with return/break/continue/?')
        st = max(m.rfind(';', 0, h.start()), m.rfind('{', 0, h.start()), m.rfind('}', 0, h.start())) + 1
        recv = body[st:h.start()]
        lead = recv[:len(recv) - len(recv.lstrip())]
        r = recv.strip()
        r = re.sub(r'\s*\.\s*into_iter\(\)$', '', r)
        edits.append((st, cl + 1 + tail.end(), '%sfor %s in %s {%s}' % (lead, cm.group(1), r, cm.group(2)), 'R2'))
    # R3  E.keys().cloned().collect() => keys_vec(&E);  E.iter().cloned().collect() => set_vec(&E)
    for h in re.finditer(r'([A-Za-z_]\w*(?:\s*\.\s*\w+)*?)\s*\.\s*keys\(\)\s*\.\s*cloned\(\)\s*\.\s*collect\(\)', m):
        edits.append((h.start(), h.end(), 'keys_vec(&%s)' % re.sub(r'\s+', '', h.group(1)), 'R3'))
    for h in re.finditer(r'([A-Za-z_]\w*(?:\s*\.\s*\w+)*?)\s*\.\s*iter\(\)\s*\.\s*cloned\(\)\s*\.\s*collect\(\)', m):
        edits.append((h.start(), h.end(), 'set_vec(&%s)' % re.sub(r'\s+', '', h.group(1)), 'R3'))
    # R4  M.entry(k).or_insert_with(Vec::new) => entry_or_new(&mut M, k)
    for h in re.finditer(r'([A-Za-z_]\w*(?:\s*\.\s*\w+)*?)\s*\.\s*entry\s*\(', m):
        op = h.end() - 1
        cl = match_brace(m, op)
        t = re.match(r'\s*\.\s*or_insert_with\s*\(\s*Vec::new\s*\)', m[cl + 1:])
        if t:
            edits.append((h.start(), cl + 1 + t.end(), 'entry_or_new(&mut %s, %s)' % (re.sub(r'\s+', '', h.group(1)), body[op + 1:cl].strip()), 'R4'))
    # R5  X.to_be_bytes() => X.to_be_bytes_v()
    for h in re.finditer(r'\.\s*to_be_bytes\(\)', m):
        edits.append((h.start(), h.end(), '.to_be_bytes_v()', 'R5'))
    # R8  E.alloc_layout(L) => bump_alloc_layout(&E, L)      (bumpalo stand-in, prelude/arena.rs)
    for h in re.finditer(r'([A-Za-z_]\w*(?:\s*\.\s*\w+)*?)\s*\.\s*alloc_layout\s*\(', m):
        op = h.end() - 1
        cl = match_brace(m, op)
        edits.append((h.start(), cl + 1, 'bump_alloc_layout(&%s, %s)' % (re.sub(r'\s+', '', h.group(1)), body[op + 1:cl].strip()), 'R8'))
    # R6  X.binary_search_by_key(&key, |e| e.key()) => X.bsearch_by_key_v(key)     (trait shim, prelude/pagenode_types.rs)
    for h in re.finditer(r'\.\s*binary_search_by_key\s*\(\s*&\s*([\w.()]+?)\s*,\s*\|\s*(\w+)\s*\|\s*\2\s*\.\s*key\(\)\s*\)', m):
        edits.append((h.start(), h.end(), '.bsearch_by_key_v(%s)' % h.group(1), 'R6'))
    # R10  `d.key() < *s` (both sides &[u8]) => `*d.key() < **s`: std's PartialOrd for references forwards to the referents
    for h in re.finditer(r'\b([A-Za-z_]\w*)\.key\(\)\s*(<=|>=|<|>)\s*\*([A-Za-z_]\w*)\b', m):
        edits.append((h.start(), h.end(), '*%s.key() %s **%s' % (h.group(1), h.group(2), h.group(3)), 'R10'))
    # R10b  `a >= l.key()` (both sides &[u8], left side a local) => `*a >= *l.key()`
    for h in re.finditer(r'(?<![\w.)])([a-z_]\w*)\s*(<=|>=)\s*([A-Za-z_]\w*)\.key\(\)', m):
        edits.append((h.start(), h.end(), '*%s %s *%s.key()' % (h.group(1), h.group(2), h.group(3)), 'R10'))
    # R10c  `l.key() <= a` (both sides &[u8], right side a local) => `*l.key() <= *a`
    for h in re.finditer(r'\b([A-Za-z_]\w*)\.key\(\)\s*(<=|>=|<|>)\s*(?!\*)([a-z_]\w*)\b(?!\s*[.(])', m):
        edits.append((h.start(), h.end(), '*%s.key() %s *%s' % (h.group(1), h.group(2), h.group(3)), 'R10'))
    # R18  V.sort_unstable_by_key(|x| x.key.clone()) / (|x| x.key_bytes()) => V.sort_by_entry_key_v()
    #      (trait shim: std's contract of a sort by the entry's key, prelude/sort_by_key.rs; Ord of Bytes is the order of the
    #      byte view, proved in unit bytes)
    for h in re.finditer(r'\.\s*sort_unstable_by_key\s*\(\s*\|\s*(\w+)\s*\|\s*\1\s*\.\s*(key\s*\.\s*clone\(\)|key_bytes\(\))\s*\)', m):
        edits.append((h.start(), h.end(), '.sort_by_entry_key_v()', 'R18'))
    # R20  E[A..].iter() => vstd::slice::slice_subrange(E.as_slice(), A, E.len()).iter()   (the range check is slice_subrange's precondition)
    for h in re.finditer(r'\b([A-Za-z_]\w*)\s*\[\s*([\w]+)\s*\.\.\s*\]\s*\.\s*iter\(\)', m):
        edits.append((h.start(), h.end(), 'vstd::slice::slice_subrange(%s.as_slice(), %s, %s.len()).iter()' % (h.group(1), h.group(2), h.group(1)), 'R20'))
    # D14  println!(..) => ()    (diagnostic output: no property speaks about it; the statement is DROPPED)
    for h in re.finditer(r'\bprintln!\s*\(', m):
        op = h.end() - 1
        cl = match_brace(m, op)
        edits.append((h.start(), cl + 1, '()', 'D14'))
    # D10  closure parameter `_` => `_unused` (Verus accepts only variable patterns there)
    for h in re.finditer(r'\|\s*_\s*\|', m):
        edits.append((h.start(), h.end(), '|_unused|', 'D10'))
    # R9  &V[..] => V.as_slice()      (full-range slice of a Vec; vstd specifies as_slice)
    for h in re.finditer(r'&\s*([A-Za-z_]\w*)\s*\[\s*\.\.\s*\]', m):
        edits.append((h.start(), h.end(), '%s.as_slice()' % h.group(1), 'R9'))
    # R12  E.map_or(D, |v| B) => (match E { Some(v) => B, None => D })     exact desugaring of Option::map_or for a closure
    #      without control flow; D is evaluated eagerly by map_or, so D must be a literal or a path (no side effect)
    for h in re.finditer(r'\.\s*map_or\s*\(', m):
        # receiver: walk back over a postfix chain  ident ( .ident | (..) | [..] )*
        p = h.start()
        while True:
            q = p
            while q > 0 and m[q - 1].isspace():
                q -= 1
            if q > 0 and m[q - 1] in ')]':
                depth, q2 = 0, q - 1
                while q2 >= 0:
                    if m[q2] in ')]':
                        depth += 1
                    elif m[q2] in '([':
                        depth -= 1
                        if depth == 0:
                            break
                    q2 -= 1
                q = q2
                # a call/index needs something callable in front of it
                while q > 0 and (m[q - 1].isalnum() or m[q - 1] == '_'):
                    q -= 1
            else:
                q3 = q
                while q3 > 0 and (m[q3 - 1].isalnum() or m[q3 - 1] == '_'):
                    q3 -= 1
                if q3 == q:
                    break
                q = q3
            p = q
            r_ = p
            while r_ > 0 and m[r_ - 1].isspace():
                r_ -= 1
            if r_ > 0 and m[r_ - 1] == '.':
                p = r_ - 1
                continue
            break
        recv_start = p
        op = h.end() - 1
        cl = match_brace(m, op)
        inner = body[op + 1:cl]
        cm = re.match(r'^\s*([\w:.]+)\s*,\s*\|\s*(\w+)\s*\|\s*(.*?)\s*$', inner, re.S)
        recv = re.sub(r'\s+', '', body[recv_start:h.start()])
        if not cm or not recv or re.search(r'\b(return|break|continue)\b|\?', mask(cm.group(3))):
            raise LostAnchor('rule R12: map_or whose receiver/arguments are not `postfix-chain.map_or(literal-or-path, |v| expr)`')
        # the closure body is carried over as text: the call-renaming rules that would have applied inside it are applied here
        # (overlapping edits keep only the outermost); R11 binary_search -> binary_search_v
        clos = re.sub(r'\.\s*binary_search\s*\(', '.binary_search_v(', cm.group(3))
        edits.append((recv_start, cl + 1, '(match %s { Some(%s) => %s, None => %s })' % (recv, cm.group(2), clos, cm.group(1)), 'R12' if clos == cm.group(3) else 'R12+R11'))
    # D12  format!(..) => verif_format()   (a String whose content no contract depends on; prelude/std_extra.rs)
    for h in re.finditer(r'\bformat!\s*\(', m):
        op = h.end() - 1
        cl = match_brace(m, op)
        edits.append((h.start(), cl + 1, 'verif_format()', 'D12'))
    # U2 (generic)  Page::from_buf(&D, I, P) => page_at(&D, I, P): the unsafe cast into the map, by the stub whose contract
    #      carries the alignment/bounds precondition that Kani unit K4 derives for the real cast (prelude/mmap.rs)
    for h in re.finditer(r'\bPage::from_buf\s*\(', m):
        op = h.end() - 1
        cl = match_brace(m, op)
        edits.append((h.start(), cl + 1, 'page_at(%s)' % body[op + 1:cl].strip(), 'U2'))
    # U20 (generic)  Bytes::Slice(E) => bytes_slice(E): the Bytes enum is opaque outside unit `bytes`; the stub says that the value
    #      denotes exactly the bytes of E (prelude/pagenode_types.rs; unit bytes proves the view of each variant)
    for h in re.finditer(r'\bBytes::Slice\s*\(', m):
        edits.append((h.start(), h.end(), 'bytes_slice(', 'U20'))
    # R11  V.binary_search(&E) => V.binary_search_v(&E)   (trait shim with std's full contract for an ascending u64 list, prelude/sortv.rs)
    for h in re.finditer(r'\.\s*binary_search\s*\(', m):
        edits.append((h.start(), h.end(), '.binary_search_v(', 'R11'))
    # R7  V.sort_unstable() => V.sort_unstable_v()   (trait shim, prelude/sortv.rs)
    for h in re.finditer(r'\b([A-Za-z_]\w*)\s*\.\s*sort_unstable\(\)', m):
        edits.append((h.start(), h.end(), '%s.sort_unstable_v()' % h.group(1), 'R7'))
    # R15  E.iter().fold(I, |A, X| B)  =>  { let fold_src__ = &E; let mut A = I; for X in fold_src__.iter() { A = B; } A }
    #      (definition of Iterator::fold for a closure without control flow; receiver first, then the argument I)
    for h in re.finditer(r'([A-Za-z_]\w*)\s*\.\s*iter\(\)\s*\.\s*fold\s*\(', m):
        op = h.end() - 1
        cl = match_brace(m, op)
        inner, inner_m = body[op + 1:cl], m[op + 1:cl]
        depth = 0
        comma = None
        for k_, ch in enumerate(inner_m):
            if ch in '([{':
                depth += 1
            elif ch in ')]}':
                depth -= 1
            elif ch == ',' and depth == 0:
                comma = k_
                break
        cm = comma is not None and re.match(r'^\s*\|\s*(\w+)\s*,\s*(\w+)\s*\|\s*(.*?)\s*,?\s*$', inner[comma + 1:], re.S)
        if not cm or re.search(r'\b(return|break|continue)\b|\?', mask(cm.group(3))):
            raise LostAnchor('rule R15: fold whose arguments are not `init, |acc, x| expr` without control flow')
        edits.append((h.start(), cl + 1, '{ let fold_src__ = &%s; let mut %s = %s; for %s in fold_src__.iter() { %s = %s; } %s }'
                      % (h.group(1), cm.group(1), inner[:comma].strip(), cm.group(2), cm.group(1), cm.group(3), cm.group(1)), 'R15'))
    # R16  for (I, X) in E[..N].iter().enumerate() { B }
    #        =>  { let enum_s__ = slice_subrange(E.as_slice(), 0, N); let mut I: usize = 0;
    #              while I < enum_s__.len() { let X = &enum_s__[I]; B  I += 1; } }
    #      (what `enumerate` over a slice iterator does; `break` in B keeps its meaning, `continue` would skip the
    #      increment and is refused; the range check of `E[..N]` is the precondition of vstd's slice_subrange)
    for h in re.finditer(r'\bfor\s*\(\s*(\w+)\s*,\s*(\w+)\s*\)\s*in\s+([A-Za-z_]\w*)\s*\[\s*\.\.\s*([^\]]+?)\s*\]\s*\.\s*iter\(\)\s*\.\s*enumerate\(\)\s*\{', m):
        ob = h.end() - 1
        cb = match_brace(m, ob)
        if re.search(r'\bcontinue\b', m[ob:cb]):
            raise LostAnchor('rule R16 refuses a loop body with continue')
        i_, x_, e_, n_ = h.group(1), h.group(2), h.group(3), body[h.start(4):h.end(4)]
        edits.append((h.start(), h.end(), '{ let enum_s__ = vstd::slice::slice_subrange(%s.as_slice(), 0, %s); let mut %s: usize = 0; '
                      'while %s < enum_s__.len() { let %s = &enum_s__[%s];' % (e_, n_, i_, i_, x_, i_), 'R16'))
        edits.append((cb, cb + 1, ' %s += 1; } }' % i_, 'R16'))
    # R16b  for (I, X) in E.iter().enumerate() { B }  (E a slice / Vec expression)
    #        =>  { let enum_s__ = E; let mut I: usize = 0; while I < enum_s__.len() { let X = &enum_s__[I]; B  I += 1; } }
    for h in re.finditer(r'\bfor\s*\(\s*(\w+)\s*,\s*(\w+)\s*\)\s*in\s+([A-Za-z_][\w.]*(?:\(\))?)\s*\.\s*iter\(\)\s*\.\s*enumerate\(\)\s*\{', m):
        ob = h.end() - 1
        cb = match_brace(m, ob)
        if re.search(r'\bcontinue\b', m[ob:cb]):
            raise LostAnchor('rule R16 refuses a loop body with continue')
        i_, x_, e_ = h.group(1), h.group(2), body[h.start(3):h.end(3)]
        edits.append((h.start(), h.end(), '{ let enum_s__ = %s; let mut %s: usize = 0; while %s < enum_s__.len() { let %s = &enum_s__[%s];' % (e_, i_, i_, x_, i_), 'R16'))
        edits.append((cb, cb + 1, ' %s += 1; } }' % i_, 'R16'))
    # R23  for (A, B) in X.iter().zip(Y.iter_mut()) { BODY }
    #        =>  { let zip_n__ = if X.len() < Y.len() { X.len() } else { Y.len() }; let mut zip_i__: usize = 0;
    #              while zip_i__ < zip_n__ { let A = &X[zip_i__]; let B = slice_at_mut(Y, zip_i__); BODY  zip_i__ += 1; } }
    #      (zip stops at the shorter side; iter_mut hands out the elements one after the other; refuses `continue`)
    for h in re.finditer(r'\bfor\s*\(\s*(\w+)\s*,\s*(\w+)\s*\)\s*in\s+(\w+)\s*\.\s*iter\(\)\s*\.\s*zip\s*\(\s*(\w+)\s*\.\s*iter_mut\(\)\s*\)\s*\{', m):
        ob = h.end() - 1
        cb = match_brace(m, ob)
        if re.search(r'\bcontinue\b', m[ob:cb]):
            raise LostAnchor('rule R23 refuses a loop body with continue')
        a_, b_, x_, y_ = h.group(1), h.group(2), h.group(3), h.group(4)
        edits.append((h.start(), h.end(), '{ let zip_n__ = if %s.len() < %s.len() { %s.len() } else { %s.len() }; let mut zip_i__: usize = 0; '
                      'while zip_i__ < zip_n__ { let %s = &%s[zip_i__]; let %s = slice_at_mut(%s, zip_i__);' % (x_, y_, x_, y_, a_, x_, b_, y_), 'R23'))
        edits.append((cb, cb + 1, ' zip_i__ += 1; } }', 'R23'))
    # R24  &mut E[(A)..]  =>  slice_cursor_from(E, (A))     (a `&mut [u8]` used as io::Write: the stand-in is a cursor with the bytes still free)
    for h in re.finditer(r'&\s*mut\s+(\w+)\s*\[\s*(\([^\]]*?\))\s*\.\.\s*\]', m):
        edits.append((h.start(), h.end(), 'slice_cursor_from(%s, %s)' % (h.group(1), body[h.start(2):h.end(2)]), 'R24'))
    # R17  E.into_iter().rev().map(|X| B).collect()
    #        =>  { let mut rev_src__ = E; let mut rev_out__ = Vec::new();
    #              loop { match rev_src__.pop() { Some(X) => { rev_out__.push(B); } None => break, } } rev_out__ }
    #      (a Vec consumed from its back, the closure applied in that order, results collected in that order)
    for h in re.finditer(r'\b([A-Za-z_]\w*)\s*\.\s*into_iter\(\)\s*\.\s*rev\(\)\s*\.\s*map\s*\(', m):
        op = h.end() - 1
        cl = match_brace(m, op)
        t = re.match(r'\s*\.\s*collect\(\)', m[cl + 1:])
        cm = re.match(r'^\s*\|\s*(\w+)\s*\|\s*(.*?)\s*$', body[op + 1:cl], re.S)
        if not t or not cm or re.search(r'\b(return|break|continue)\b|\?', mask(cm.group(2))):
            raise LostAnchor('rule R17: `.into_iter().rev().map(|x| expr).collect()` expected')
        edits.append((h.start(), cl + 1 + t.end(), '{ let mut rev_src__ = %s; let mut rev_out__ = Vec::new(); '
                      'loop { match rev_src__.pop() { Some(%s) => { rev_out__.push(%s); } None => break, } } rev_out__ }'
                      % (h.group(1), cm.group(1), cm.group(2)), 'R17'))
    # overlapping edits (R1 inside R2 etc.) are not expected; keep the outermost
    edits.sort()
    out = []
    for e in edits:
        if out and e[0] < out[-1][1]:
            continue
        out.append(e)
    return out

# ------------------------------------------------------------------------------------------------

def block_open_after(masked, p):
    """position of the `{` that opens the block of the loop/if whose keyword ends at p"""
    depth = 0
    while p < len(masked):
        ch = masked[p]
        if ch in '([':
            depth += 1
        elif ch in ')]':
            depth -= 1
        elif ch == '{' and depth == 0:
            return p
        p += 1
    raise LostAnchor('block not found')


class Contract:
    def __init__(self, key):
        self.key = key
        self.path = os.path.join(VERIF, 'contracts', 'fn', key + '.contract')
        if not os.path.exists(self.path):
            raise FileNotFoundError(self.path)
        self.rel = os.path.relpath(self.path, VERIF)
        lines = open(self.path).read().split('\n')
        self.src_file = self.fn_spec = None
        self.wrap = None
        self.allow_panic = False
        self.ret_impl = None
        self.assoc = {}
        self.head = []          # (lineno, text): attributes + signature + clauses
        self.directives = []    # dict(kind, arg, lineno, text[])
        cur = None
        in_body = False
        for no, ln in enumerate(lines, 1):
            s = ln.strip()
            if s.startswith('//@source'):
                _, self.src_file, self.fn_spec = s.split(None, 2)
            elif s.startswith('//@note'):
                continue
            elif s.startswith('//@allow-panic'):
                self.allow_panic = True
            elif s.startswith('//@assoc'):
                # rule D9: `//@assoc Self::Item = T`: a trait-impl method verified as an inherent method spells the
                # associated type out
                k_, v_ = s[len('//@assoc'):].split('=', 1)
                self.assoc[k_.strip()] = v_.strip()
            elif s.startswith('//@wrap'):
                self.wrap = s[len('//@wrap'):].strip()
            elif s.startswith('//@ret-impl'):
                # rule D16: `-> impl Trait<..>` is spelled as the concrete type the body returns (rustc checks that it is that type)
                self.ret_impl = s[len('//@ret-impl'):].strip()
            elif s.startswith('//@body'):
                in_body = True
            elif s.startswith('//@') and in_body:
                parts = s[3:].split(None, 1)
                cur = dict(kind=parts[0], arg=parts[1] if len(parts) > 1 else '', lineno=no, text=[])
                self.directives.append(cur)
            elif s.startswith('//@'):
                raise ValueError('%s:%d: directive %s before //@body' % (self.rel, no, s))
            elif in_body:
                if cur is None:
                    if s:
                        raise ValueError('%s:%d: text outside a directive' % (self.rel, no))
                else:
                    cur['text'].append((no, ln))
            else:
                self.head.append((no, ln))
        while self.head and not self.head[-1][1].strip():
            self.head.pop()
        if not self.src_file:
            raise ValueError('%s: no //@source' % self.rel)

    def signature_text(self):
        sig = []
        started = False
        for no, ln in self.head:
            s = ln.strip()
            if not started:
                if re.match(r'(pub\s+)?(open\s+|closed\s+)?(proof\s+|exec\s+)?fn\b', s):
                    started = True
                else:
                    continue
            if s.split('(')[0].strip() in CLAUSE_KW or (s.split() and s.split()[0] in CLAUSE_KW):
                break
            sig.append(re.sub(r'//.*$', '', ln))
        return ' '.join(sig)


def norm_contract_sig(sig):
    """`-> (r: T)` => `-> T`"""
    m = re.search(r'->\s*\(\s*[a-z_][A-Za-z0-9_]*\s*:', sig)
    if m:
        op = sig.index('(', m.start())
        cl = match_brace(sig, op)
        inner = sig[op + 1:cl]
        inner = inner.split(':', 1)[1]
        sig = sig[:op] + inner + sig[cl + 1:]
    return sig


def norm_real_sig(sig):
    sig = re.sub(r'\bpub\s*(\([^)]*\))?\s*', '', sig)
    # rule D4: Verus does not accept `_` as a parameter pattern; the contract names it `_p`
    sig = re.sub(r'([(,]\s*)_(\s*:)', r'\1_p\2', sig)
    # rule D7: Verus does not support a `mut self` receiver; see build_fn
    sig = re.sub(r'\(\s*mut\s+self\b', '(self', sig)
    return sig


class FnResult:
    def __init__(self):
        self.lines = []
        self.prov = {}


def build_fn(key, mode, log):
    """returns (list[Line], provenance dict).  mode: 'body' | 'decl'"""
    c = Contract(key)
    S = source(c.src_file)
    loc = S.find_fn(c.fn_spec)
    real_sig = S.text[loc['fn_idx']:loc['body_open']]
    rs_ = norm_real_sig(real_sig)
    for k_, v_ in c.assoc.items():
        rs_ = rs_.replace(k_, v_)
    if c.ret_impl:
        if not re.search(r'->\s*impl\b', rs_):
            raise LostAnchor('%s %s: //@ret-impl but the function does not return `impl Trait`' % (c.src_file, c.fn_spec))
        rs_ = re.sub(r'->\s*impl\b.*$', '-> ' + c.ret_impl + ' ', rs_, flags=re.S)
    a = tokens(rs_)
    b = tokens(norm_contract_sig(c.signature_text()))
    if a != b:
        raise LostAnchor('signature of %s %s changed:\n  real:     %s\n  contract: %s'
                         % (c.src_file, c.fn_spec, ' '.join(a), ' '.join(b)))
    item_text = S.text[loc['item_start']:loc['body_close'] + 1]
    prov = dict(key=key, file=c.src_file, fn=c.fn_spec,
                lines=[line_of(S.text, loc['fn_idx']), line_of(S.text, loc['body_close'])],
                sha256=hashlib.sha256(item_text.encode()).hexdigest(), mode=mode, rewrites=[])
    if c.ret_impl:
        prov['rewrites'].append(dict(rule='D16', where='%s:%d' % (c.src_file, line_of(S.text, loc['fn_idx'])),
                                     before='-> impl Trait return type', after='-> ' + c.ret_impl))
    dropped = S.text[loc['item_start']:loc['fn_idx']].strip()
    if dropped:
        prov['rewrites'].append(dict(rule='D1', where='%s:%d' % (c.src_file, line_of(S.text, loc['item_start'])),
                                     before=re.sub(r'\s+', ' ', dropped)[:200], after=''))
    out = []
    if c.wrap:
        out.append(Line(c.wrap + ' {', ('T', c.rel, 0)))
    for no, ln in c.head:
        out.append(Line(ln, ('T', c.rel, no)))
    if mode == 'decl-sig':
        # signature only: neither the preconditions nor the postconditions of the contract are used in this unit (the call
        # site does NOT prove the callee's precondition here; reported as an unchecked assumption in the evidence)
        keep = []
        for l in out:
            s_ = l.text.strip()
            if s_.split('(')[0].strip() in CLAUSE_KW or (s_.split() and s_.split()[0] in CLAUSE_KW):
                break
            keep.append(l)
        out = keep
        prov['rewrites'].append(dict(rule='DECL-SIG', where='%s:%s' % (c.src_file, c.fn_spec), before='contract clauses of %s' % key,
                                     after='signature only: the precondition is NOT proved at the call sites of this unit'))
        mode = 'decl'
    if mode == 'decl':
        # contract only; the body is verified in the unit that owns this function
        idx = next(i for i, l in enumerate(out) if re.search(r'\bfn\b', l.text))
        out.insert(idx, Line('#[verifier::external_body]', ('G', 'decl of ' + key)))
        out.append(Line('{ unimplemented!() }', ('G', 'decl of ' + key)))
        if c.wrap:
            out.append(Line('}', ('G', 'wrap close of ' + key)))
        log.extend(prov['rewrites'])
        return out, prov, c

    body = S.text[loc['body_open'] + 1:loc['body_close']]
    first_line = line_of(S.text, loc['body_open'] + 1)
    # char-level origin: source line numbers (>0) or -(contract line) for injected text
    orig = []
    ln = first_line
    for ch in body:
        orig.append(ln)
        if ch == '\n':
            ln += 1

    rw = []
    where = '%s:%s' % (c.src_file, c.fn_spec)
    if re.search(r'\(\s*mut\s+self\b', real_sig):
        # rule D7: `fn f(mut self, ..) { B }`  =>  `fn f(self, ..) { let mut self_ = self; B[self := self_] }`
        mb = mask(body)
        renamed = ''.join(body[i] for i in range(len(body)))
        out_b, last = [], 0
        for m_ in re.finditer(r'\bself\b', mb):
            out_b.append(body[last:m_.start()] + 'self_')
            last = m_.end()
        out_b.append(body[last:])
        body = ' let mut self_ = self;' + ''.join(out_b)
        rw.append(dict(rule='D7', where=where, before='mut self receiver', after='let mut self_ = self; body with self renamed to self_'))
        orig = []
        ln = first_line
        for ch in body:
            orig.append(ln)
            if ch == '\n':
                ln += 1
    nb = strip_macro_messages(body, rw, where)
    if c.allow_panic:
        # rule D8: a DOCUMENTED panic is modelled as divergence (`documented_panic()` ensures false) instead of a
        # precondition, so that removing the check becomes a failed postcondition
        n2 = re.sub(r'\bpanic!\(\)', 'documented_panic()', nb)
        if n2 != nb:
            rw.append(dict(rule='D8', where=where, before='panic!(..)', after='documented_panic()'))
            nb = n2
    if nb != body:
        # D2 keeps line count; rebuild origin by line
        body = nb
        orig = []
        ln = first_line
        for ch in body:
            orig.append(ln)
            if ch == '\n':
                ln += 1

    def splice(a, b, text, tag):
        nonlocal body, orig
        body = body[:a] + text + body[b:]
        orig[a:b] = [tag] * len(text)

    # 0. generic pattern rules R1-R7 (DESIGN 2.1)
    for a_, b_, new, rule in reversed(generic_rules(body)):
        src_ln = orig[a_]
        old = body[a_:b_]
        pad = '\n' * max(0, old.count('\n') - new.count('\n'))
        splice(a_, b_, new + pad, src_ln)
        rw.append(dict(rule=rule, where='%s:%s' % (c.src_file, src_ln), before=re.sub(r'\s+', ' ', old)[:300], after=re.sub(r'\s+', ' ', new)[:300]))

    # 0b. rule R19 (named by the contract: `//@for-desugar \`E\``): `for PAT in E { B }` =>
    #     `{ let mut forit__ = E; loop { let PAT = match forit__.next() { Some(v__) => v__, None => break }; B } }`
    #     the language definition of `for` (IntoIterator::into_iter on an iterator is the identity); used where E is an
    #     iterator of a stand-in collection that Verus' built-in for-loop support does not know
    for d in c.directives:
        if d['kind'] != 'for-desugar':
            continue
        m_ = re.match(r'`(.*?)`\s*(x\?)?$', d['arg'], re.S)
        if not m_:
            raise ValueError('%s:%d: bad for-desugar' % (c.rel, d['lineno']))
        mb = mask(body)
        rx = re.compile(r'\bfor\s+(.+?)\s+in\s+' + flex_tok(m_.group(1)).pattern + r'\s*\{', re.S)
        hits = list(rx.finditer(body))
        if not hits and not m_.group(2):
            raise LostAnchor('%s:%d: rule R19: no `for .. in %s {` in %s' % (c.rel, d['lineno'], m_.group(1), where))
        for h in reversed(hits):
            ob = h.end() - 1
            cb = match_brace(mb, ob)
            src_ln = orig[h.start()]
            pat = h.group(1)
            old_txt = body[h.start():h.end()]
            splice(cb, cb + 1, '} }', orig[cb])
            e_txt = m_.group(1) if m_.group(1).rstrip().endswith(')') else m_.group(1) + '.into_iter()'
            new_txt = '{ let mut forit__ = %s; let ghost forit0__ = forit__; loop { let %s = match forit__.next() { Some(v__) => v__, None => break };' % (e_txt, pat)
            splice(h.start(), h.end(), new_txt + '\n' * old_txt.count('\n'), src_ln)
            rw.append(dict(rule='R19', where='%s:%s' % (c.src_file, src_ln), before=re.sub(r'\s+', ' ', old_txt), after=new_txt))

    # 0c. rule R22 (opt-in: `//@while-let-desugar`): while let Some(X) = E { B }  =>  loop { let X = match E { Some(v__) => v__, None => break }; B }
    #     (definition of `while let`; lets a hint name the state BEFORE E is evaluated)
    if any(d['kind'] == 'while-let-desugar' for d in c.directives):
        mb = mask(body)
        for h in reversed(list(re.finditer(r'\bwhile\s+let\s+Some\s*\(\s*(\w+)\s*\)\s*=\s*([^{;]+?)\s*\{', mb))):
            old_txt = body[h.start():h.end()]
            new_txt = 'loop { let %s = match %s { Some(v__) => v__, None => break };' % (h.group(1), body[h.start(2):h.end(2)])
            src_ln = orig[h.start()]
            splice(h.start(), h.end(), new_txt + '\n' * old_txt.count('\n'), src_ln)
            rw.append(dict(rule='R22', where='%s:%s' % (c.src_file, src_ln), before=re.sub(r'\s+', ' ', old_txt), after=new_txt))

    # 1. explicit replaces
    for d in c.directives:
        if d['kind'] != 'replace':
            continue
        m = re.match(r'(\S+)\s+`(.*?)`\s*=>\s*`(.*?)`\s*(x(\d+|\*|\?))?$', d['arg'], re.S)
        if not m:
            raise ValueError('%s:%d: bad replace' % (c.rel, d['lineno']))
        rule, frm, to, _, cnt = m.groups()
        anycnt = cnt == '*'          # every occurrence (at least one)
        optcnt = cnt == '?'          # every occurrence, possibly none (the construct the stub stands for may be gone)
        cnt = 1 if (anycnt or optcnt) else (int(cnt) if cnt else 1)
        rx = flex_tok(frm)
        hits = list(rx.finditer(body))
        if optcnt:
            pass
        elif (anycnt and not hits) or (not anycnt and len(hits) != cnt):
            raise LostAnchor('%s:%d: rule %s pattern `%s` found %d times in %s (expected %d)'
                             % (c.rel, d['lineno'], rule, frm, len(hits), where, cnt))
        for h in reversed(hits):
            src_ln = orig[h.start()]
            old = body[h.start():h.end()]
            pad = '\n' * (old.count('\n') - to.count('\n'))
            splice(h.start(), h.end(), to + pad, src_ln)
            rw.append(dict(rule=rule, where='%s:%s' % (c.src_file, src_ln),
                           before=re.sub(r'\s+', ' ', old), after=to))
    prov['rewrites'] += rw
    log.extend(prov['rewrites'])

    # 2. locate insertion points on the rewritten body
    masked = mask(body)
    inserts = []     # (pos, text, tag)

    def ghost_text(d):
        return '\n' + '\n'.join(t for _, t in d['text']) + '\n'

    loops = [m for m in re.finditer(r'\b(for|while|loop)\b', masked)
             if not re.match(r'for\s*<', masked[m.start():m.start() + 8])]
    def _place(d, k, tag):
        if k == 'first':
            inserts.append((0, ghost_text(d), tag, d))
        elif k == 'last':
            inserts.append((len(body.rstrip()), ghost_text(d), tag, d))
        elif k in ('loop-first', 'loop-last'):
            n = int(d['arg'].split()[0])
            if n < 1 or n > len(loops):
                raise LostAnchor('%s:%d: loop %d not found in %s (has %d loops)' % (c.rel, d['lineno'], n, where, len(loops)))
            ob = block_open_after(masked, loops[n - 1].end())
            cb = match_brace(masked, ob)
            if k == 'loop-first':
                pos = ob + 1
                sh = re.match(r'\s*let\s+(\w+)\s*=\s*\*\1\s*;', masked[pos:])      # the shadowing `let` of rule R1
                if sh:
                    pos += sh.end()
                inserts.append((pos, ghost_text(d), tag, d))
            else:
                inserts.append((cb, ghost_text(d), tag, d))
        elif k == 'if':
            parts = d['arg'].split()
            n, wh = int(parts[0]), parts[1]
            ifs = list(re.finditer(r'\bif\b', masked))
            if n < 1 or n > len(ifs):
                raise LostAnchor('%s:%d: if %d not found in %s (has %d)' % (c.rel, d['lineno'], n, where, len(ifs)))
            ob = block_open_after(masked, ifs[n - 1].end())
            cb = match_brace(masked, ob)
            if wh == 'before':
                # in front of the whole if statement (the `if` keyword itself; for `else if` this is refused)
                if re.search(r'\belse\s*$', masked[:ifs[n - 1].start()]):
                    raise LostAnchor('%s:%d: if %d is an else-if' % (c.rel, d['lineno'], n))
                inserts.append((ifs[n - 1].start(), ghost_text(d), tag, d))
            elif wh == 'then-first':
                inserts.append((ob + 1, ghost_text(d), tag, d))
            elif wh == 'then-last':
                inserts.append((cb, ghost_text(d), tag, d))
            elif wh in ('else-first', 'else-last', 'after'):
                em = re.match(r'\s*else\s*\{', masked[cb + 1:])
                if wh == 'after':
                    end = cb + 1
                    while True:
                        e2 = re.match(r'\s*else\s*(if\b[^{]*)?\{', masked[end:])
                        if not e2:
                            break
                        end = match_brace(masked, end + e2.end() - 1) + 1
                    inserts.append((end, ghost_text(d), tag, d))
                else:
                    if not em:
                        raise LostAnchor('%s:%d: if %d of %s has no plain else block' % (c.rel, d['lineno'], n, where))
                    eo = cb + 1 + em.end() - 1
                    ec = match_brace(masked, eo)
                    inserts.append((eo + 1 if wh == 'else-first' else ec, ghost_text(d), tag, d))
            else:
                raise ValueError('%s:%d: bad if position %s' % (c.rel, d['lineno'], wh))
        elif k in ('after-let', 'before-let'):
            nm = d['arg'].split()[0]
            which = int(d['arg'].split()[1][1:]) if len(d['arg'].split()) > 1 else None
            hits = list(re.finditer(r'\blet\s+(mut\s+)?' + re.escape(nm) + r'\b', masked))
            if (which is None and len(hits) != 1) or (which is not None and which > len(hits)):
                raise LostAnchor('%s:%d: `let %s` found %d times in %s' % (c.rel, d['lineno'], nm, len(hits), where))
            h = hits[(which or 1) - 1]
            if k == 'before-let':
                inserts.append((h.start(), ghost_text(d), tag, d))
            else:
                p = h.end()
                depth = 0
                while True:
                    ch = masked[p]
                    if ch in '([{':
                        depth += 1
                    elif ch in ')]}':
                        depth -= 1
                    elif ch == ';' and depth == 0:
                        break
                    p += 1
                inserts.append((p + 1, ghost_text(d), tag, d))
        elif k == 'scope-end':
            # last position of the block in which `let NAME` is declared (where a guard bound to NAME is dropped)
            nm = d['arg'].split()[0]
            hits = list(re.finditer(r'\blet\s+(mut\s+)?' + re.escape(nm) + r'\b', masked))
            if len(hits) != 1:
                raise LostAnchor('%s:%d: `let %s` found %d times in %s' % (c.rel, d['lineno'], nm, len(hits), where))
            p = hits[0].start() - 1
            depth = 0
            while p >= 0:
                ch = masked[p]
                if ch in ')]}':
                    depth += 1
                elif ch in '([{':
                    if depth == 0:
                        break
                    depth -= 1
                p -= 1
            if p < 0:
                end = len(masked.rstrip())
            else:
                if masked[p] != '{':
                    raise LostAnchor('%s:%d: `let %s` is not directly inside a block in %s' % (c.rel, d['lineno'], nm, where))
                end = match_brace(masked, p)
            prev = masked[:end].rstrip()
            if prev and prev[-1] not in ';}{':
                raise LostAnchor('%s:%d: the block declaring %s ends in a tail expression in %s' % (c.rel, d['lineno'], nm, where))
            inserts.append((end, ghost_text(d), tag, d))
        elif k == 'loop-before':
            n = int(d['arg'].split()[0])
            if n < 1 or n > len(loops):
                raise LostAnchor('%s:%d: loop %d not found in %s' % (c.rel, d['lineno'], n, where))
            # in front of the statement the loop keyword starts (a `for`/`while`/`loop` at statement level)
            inserts.append((loops[n - 1].start(), ghost_text(d), tag, d))
        elif k == 'loop-after':
            n = int(d['arg'].split()[0])
            if n < 1 or n > len(loops):
                raise LostAnchor('%s:%d: loop %d not found in %s' % (c.rel, d['lineno'], n, where))
            cb = match_brace(masked, block_open_after(masked, loops[n - 1].end()))
            inserts.append((cb + 1, ghost_text(d), tag, d))
        elif k == 'tail':
            # rule D13: the tail expression E of the body becomes `let tail__ = E; <proof block> tail__` (a ghost-neutral
            # binding, so that a hint can speak about the value the function returns)
            e = len(masked.rstrip())
            depth = 0
            st = None
            for p_ in range(e - 1, -1, -1):
                ch = masked[p_]
                if ch in ')]}':
                    depth += 1
                elif ch in '([{':
                    depth -= 1
                elif ch == ';' and depth == 0:
                    st = p_ + 1
                    break
            if st is None or not masked[st:e].strip() or re.match(r'\s*(let|return|if|match|while|for|loop)\b', masked[st:e]):
                raise LostAnchor('%s:%d: %s does not end in a plain tail expression' % (c.rel, d['lineno'], where))
            inserts.append((st, ' let tail__ = ', tag, dict(text=[])))
            inserts.append((e, ';', tag, dict(text=[])))
            inserts.append((e, ghost_text(d), tag, d))
            inserts.append((e, ' tail__ ', tag, dict(text=[])))
        elif k == 'before-tail':
            e = len(masked.rstrip())
            if e == 0 or masked[e - 1] in ';}':
                inserts.append((e, ghost_text(d), tag, d))
            else:
                inserts.append((masked.rfind('\n', 0, e) + 1, ghost_text(d), tag, d))
        elif k in ('before-stmt', 'after-stmt'):
            # the statement that CONTAINS the given text (robust against how the statement is otherwise written)
            m_ = re.match(r'`(.*?)`\s*(#(\d+))?$', d['arg'], re.S)
            if not m_:
                raise ValueError('%s:%d: bad anchor' % (c.rel, d['lineno']))
            hits = list(flex_tok(m_.group(1)).finditer(body))
            which = int(m_.group(3)) if m_.group(3) else None
            if (which is None and len(hits) != 1) or (which is not None and which > len(hits)):
                raise LostAnchor('%s:%d: text `%s` found %d times in %s' % (c.rel, d['lineno'], m_.group(1), len(hits), where))
            h = hits[(which or 1) - 1]
            if k == 'before-stmt':
                st = max(masked.rfind(';', 0, h.start()), masked.rfind('{', 0, h.start()), masked.rfind('}', 0, h.start())) + 1
                inserts.append((st, ghost_text(d), tag, d))
            else:
                p_ = h.end()
                depth_ = 0
                while p_ < len(masked):
                    ch = masked[p_]
                    if ch in '([{':
                        depth_ += 1
                    elif ch in ')]}':
                        depth_ -= 1
                    elif ch == ';' and depth_ <= 0:
                        break
                    p_ += 1
                inserts.append((p_ + 1, ghost_text(d), tag, d))
        elif k == 'before-break':
            n = int(d['arg'].split()[0]) if d['arg'].strip() else 1
            brs = list(re.finditer(r'\bbreak\b', masked))
            if n > len(brs):
                raise LostAnchor('%s:%d: break %d not found in %s' % (c.rel, d['lineno'], n, where))
            inserts.append((brs[n - 1].start(), ghost_text(d), tag, d))
        elif k == 'before-return':
            # n-th `return` keyword
            n = int(d['arg'].split()[0]) if d['arg'].strip() else 1
            rets = list(re.finditer(r'\breturn\b', masked))
            if n > len(rets):
                raise LostAnchor('%s:%d: return %d not found in %s' % (c.rel, d['lineno'], n, where))
            inserts.append((rets[n - 1].start(), ghost_text(d), tag, d))
        elif k == 'loop':
            parts = d['arg'].split()
            n = int(parts[0])
            it = parts[1] if len(parts) > 1 else None
            if n < 1 or n > len(loops):
                raise LostAnchor('%s:%d: loop %d not found in %s (has %d loops)' % (c.rel, d['lineno'], n, where, len(loops)))
            lm = loops[n - 1]
            depth = 0
            p = lm.end()
            in_pos = None
            while True:
                ch = masked[p]
                if ch in '([':
                    depth += 1
                elif ch in ')]':
                    depth -= 1
                elif ch == '{' and depth == 0:
                    break
                elif depth == 0 and lm.group(1) == 'for' and in_pos is None and re.match(r'\bin\b', masked[p:p + 3]) \
                        and not masked[p - 1].isalnum() and masked[p - 1] != '_':
                    in_pos = p + 2
                p += 1
            if it:
                if lm.group(1) != 'for' or in_pos is None:
                    raise LostAnchor('%s:%d: loop %d of %s is not a for loop' % (c.rel, d['lineno'], n, where))
                inserts.append((in_pos, ' %s:' % it, tag, d))
            inserts.append((p, ghost_text(d), tag, d))
        elif k in ('before', 'after'):
            m = re.match(r'`(.*?)`\s*(#(\d+))?$', d['arg'], re.S)
            if not m:
                raise ValueError('%s:%d: bad anchor' % (c.rel, d['lineno']))
            anchor, _, which = m.groups()
            hits = list(flex_tok(anchor).finditer(body))
            if which:
                if int(which) > len(hits):
                    raise LostAnchor('%s:%d: anchor `%s` #%s not found in %s' % (c.rel, d['lineno'], anchor, which, where))
                h = hits[int(which) - 1]
            else:
                if len(hits) != 1:
                    raise LostAnchor('%s:%d: anchor `%s` found %d times in %s' % (c.rel, d['lineno'], anchor, len(hits), where))
                h = hits[0]
            inserts.append((h.start() if k == 'before' else h.end(), ghost_text(d), tag, d))
        else:
            raise ValueError('%s:%d: unknown directive %s' % (c.rel, d['lineno'], k))


    for d in c.directives:
        k = d['kind']
        tag = -d['lineno']
        if k in ('replace', 'for-desugar', 'while-let-desugar'):
            continue
        optional = k.endswith('?')
        if optional:
            k = k[:-1]
        try:
            _place(d, k, tag)
        except LostAnchor as e:
            if not optional:
                raise
            prov.setdefault('skipped_hints', []).append('%s:%d %s' % (c.rel, d['lineno'], str(e)[:160]))

    # 3. apply insertions back to front (stable for equal positions: later directives after earlier)
    inserts_sorted = sorted(enumerate(inserts), key=lambda t: (t[1][0], t[0]), reverse=True)
    for _, (pos, text, tag, d) in inserts_sorted:
        if d['text'] and text.startswith('\n'):
            # per-line tags so diagnostics map to the exact contract line
            segs = []
            tags = []
            segs.append('\n')
            tags.append(tag)
            for no, t in d['text']:
                segs.append(t + '\n')
                tags.extend([-no] * (len(t) + 1))
            text = ''.join(segs)
            body = body[:pos] + text + body[pos:]
            orig[pos:pos] = tags
        else:
            body = body[:pos] + text + body[pos:]
            orig[pos:pos] = [tag] * len(text)

    # 4. emit
    out.append(Line('{', ('G', 'body open of ' + key)))
    start = 0
    for ln_text in body.split('\n'):
        end = start + len(ln_text)
        tags = [t for t, ch in zip(orig[start:end], ln_text) if not ch.isspace()]
        if not tags:
            o = ('G', 'blank')
        elif tags[0] < 0 and all(t < 0 for t in tags):
            o = ('T', c.rel, -tags[0])
        else:
            src = [t for t in tags if t > 0]
            inj = [t for t in tags if t < 0]
            o = ('S', c.src_file, src[0]) if not inj else ('S+T', c.src_file, src[0], c.rel, -inj[0])
        out.append(Line(ln_text, o))
        start = end + 1
    out.append(Line('}', ('G', 'body close of ' + key)))
    if c.wrap:
        out.append(Line('}', ('G', 'wrap close of ' + key)))
    return out, prov, c


def build_item(rel, kind, name, log):
    S = source(rel)
    loc = S.find_item(kind, name)
    text = S.text[loc['start']:loc['end']]
    attrs = S.text[loc['attrs_start']:loc['start']].strip()
    prov = dict(key='%s %s' % (kind, name), file=rel,
                lines=[line_of(S.text, loc['start']), line_of(S.text, loc['end'])],
                sha256=hashlib.sha256(text.encode()).hexdigest(), mode='item', rewrites=[])
    if attrs:
        prov['rewrites'].append(dict(rule='D1', where='%s:%d' % (rel, line_of(S.text, loc['attrs_start'])),
                                     before=re.sub(r'\s+', ' ', attrs)[:200], after=''))
    out = []
    for rm in re.finditer(r'#\[repr\([^\]]*\)\]', attrs):
        out.append(Line(rm.group(0), ('S', rel, line_of(S.text, loc['attrs_start']))))
    dm = re.search(r'#\[derive\(([^\]]*)\)\]', attrs)
    if dm:
        keep = [d.strip() for d in dm.group(1).split(',') if d.strip() in ('Clone', 'Copy')]
        if 'Copy' in keep:      # a non-Copy derived Clone gets no spec from Verus: see //@derive-clone
            out.append(Line('#[derive(%s)]' % ', '.join(keep), ('S', rel, line_of(S.text, loc['attrs_start']))))
    ln = line_of(S.text, loc['start'])
    for t in text.split('\n'):
        t2 = re.sub(r'^(\s*)pub\s*(\([^)]*\))?\s+', r'\1', t)
        t2 = re.sub(r'^\s*///.*$', '', t2)
        out.append(Line(t2, ('S', rel, ln)))
        ln += 1
    log.extend(prov['rewrites'])
    return out, prov


class Unit:
    def __init__(self, name):
        self.name = name
        self.tmpl_rel = os.path.join('contracts', name + '.vtmpl')
        self.lines = []
        self.prov = []
        self.rewrites = []
        self.fn_spans = []      # dict(key, mode, start, end, contract)
        self.include_map = {}
        self._expand(self.tmpl_rel, 0)
        self._pull_consts()

    def _pull_consts(self):
        """rule D15: a module-level `const NAME: T = expr;` of the SAME source file that a function verified on its real body uses,
        and that the unit does not define, is extracted verbatim and placed at the top of the verus! block (constants are pure;
        without this a change that introduces a named constant ends in `cannot find value` = undecided)."""
        for _round in range(8):
            text = self.text()
            defined = set(re.findall(r'\b(?:const|static)\s+([A-Z][A-Z0-9_]*)\b', text))
            done = True
            for sp in self.fn_spans:
                if sp['mode'] != 'body':
                    continue
                srel = sp['contract'].src_file
                body = '\n'.join(l.text for l in self.lines[sp['start'] - 1:sp['end']] if l.origin[0] != 'T')
                for nm in sorted(set(re.findall(r'(?<![:\w.])([A-Z][A-Z0-9_]{2,})\b(?!\s*(?:::|!|\())', mask(body)))):
                    if nm in defined:
                        continue
                    S = source(srel)
                    hits = [m for m in re.finditer(r'(?m)^(pub(\([a-z]+\))?\s+)?const\s+' + nm + r'\b', S.masked) if not S.in_test(m.start())]
                    if len(hits) != 1:
                        continue
                    ls, prov = build_item(srel, 'const', nm, self.rewrites)
                    w = dict(rule='D15', where='%s: const %s' % (srel, nm), before='(module constant used by %s)' % sp['key'], after='extracted with the function')
                    prov['rewrites'].append(w)
                    self.rewrites.append(w)
                    # items of a module may refer to each other in any order: the constant goes to the top of the verus! block
                    at = next((i + 1 for i, l in enumerate(self.lines) if l.text.strip() == 'verus! {'), None)
                    if at is None:
                        return
                    self.lines[at:at] = ls
                    for sp2 in self.fn_spans:
                        if sp2['start'] - 1 >= at:
                            sp2['start'] += len(ls)
                            sp2['end'] += len(ls)
                    self.prov.append(prov)
                    done = False
                    break
                if not done:
                    break
            if done:
                return

    def _expand(self, rel, depth):
        if depth > 5:
            raise ValueError('include depth')
        path = os.path.join(VERIF, rel)
        for no, ln in enumerate(open(path).read().split('\n'), 1):
            s = ln.strip()
            if s.startswith('//@include-swap'):
                # `//@include-swap A => B` (template level): every later `//@include A`, however deeply nested, reads B instead
                a, b = [x.strip() for x in s.split(None, 1)[1].split('=>')]
                self.include_map[a] = b
            elif s.startswith('//@include'):
                inc = s.split(None, 1)[1].strip()
                self._expand(self.include_map.get(inc, inc), depth + 1)
            elif s.startswith('//@item '):
                _, srel, kind, name = s.split()
                ls, prov = build_item(srel, kind, name, self.rewrites)
                self.lines += ls
                self.prov.append(prov)
            elif s.startswith('//@item-subst'):
                # `//@item-subst <src> <kind> <Name> ||| <from> ||| <to>`: the real definition with ONE field type replaced by a
                # stand-in type (rule U23; logged).  Used where a field's type cannot be expressed (recursive handle maps).
                head, frm, to = [x.strip() for x in s.split('|||')]
                _, srel, kind, name = head.split()
                ls, prov = build_item(srel, kind, name, self.rewrites)
                hit = 0
                for l in ls:
                    if frm in l.text:
                        l.text = l.text.replace(frm, to)
                        hit += 1
                if hit != 1:
                    raise LostAnchor('%s: rule U23: `%s` found %d times in %s %s' % (srel, frm, hit, kind, name))
                w = dict(rule='U23', where='%s:%s %s' % (srel, kind, name), before=frm, after=to)
                prov['rewrites'].append(w)
                self.rewrites.append(w)
                self.lines += ls
                self.prov.append(prov)
            elif s.startswith('//@derive-clone'):
                # the real type has #[derive(Clone)]; Verus gives non-Copy derives no spec, so the derive is
                # replaced by an ASSUMED impl: clone() returns an equal value (rule D5)
                tn = s.split()[1]
                for t in ('impl Clone for %s {' % tn,
                          '    #[verifier::external_body]',
                          '    fn clone(&self) -> (r: Self)',
                          '        ensures r == *self,',
                          '    { unimplemented!() }',
                          '}'):
                    self.lines.append(Line(t, ('T', rel, no)))
            elif s.startswith('//@const'):
                # `//@const <src> <NAME> <ensures-expr>`: the real initialiser expression verbatim, in
                # Verus' `exec const .. ensures .. { expr }` form (rule D3)
                _, srel, name, ens = s.split(None, 3)
                S = source(srel)
                loc = S.find_item('const', name)
                text = S.text[loc['start']:loc['end']]
                m = re.match(r'\s*(pub\s*(\([^)]*\))?\s+)?const\s+(\w+)\s*:\s*([^=]+?)\s*=\s*(.*);\s*$', text, re.S)
                if not m:
                    raise LostAnchor('%s: const %s has an unexpected shape' % (srel, name))
                ln0 = line_of(S.text, loc['start'])
                self.lines.append(Line('exec const %s: %s' % (m.group(3), m.group(4)), ('S', srel, ln0)))
                self.lines.append(Line('    ensures %s,' % ens, ('T', rel, no)))
                self.lines.append(Line('{ %s }' % m.group(5), ('S', srel, ln0)))
                self.prov.append(dict(key='const ' + name, file=srel, lines=[ln0, line_of(S.text, loc['end'])],
                                      sha256=hashlib.sha256(text.encode()).hexdigest(), mode='const',
                                      rewrites=[dict(rule='D3', where='%s:%d' % (srel, ln0), before=re.sub(r'\s+', ' ', text.strip()),
                                                     after='exec const .. ensures .. { <same expression> }')]))
                self.rewrites += self.prov[-1]['rewrites']
            elif s.startswith('//@fn') or s.startswith('//@decl'):
                d, key = s.split()
                mode = 'body' if d == '//@fn' else ('decl-sig' if d == '//@decl-sig' else 'decl')
                ls, prov, c = build_fn(key, mode, self.rewrites)
                start = len(self.lines) + 1
                self.lines += ls
                self.prov.append(prov)
                self.fn_spans.append(dict(key=key, mode=('decl' if mode == 'decl-sig' else mode), start=start, end=len(self.lines), contract=c))
            elif s.startswith('//@unit') or s.startswith('//@note'):
                continue
            elif s.startswith('//@'):
                raise ValueError('%s:%d: unknown directive %s' % (rel, no, s))
            else:
                self.lines.append(Line(ln, ('T', rel, no)))

    def text(self):
        return '\n'.join(l.text for l in self.lines) + '\n'

    def origin(self, lineno):
        if 1 <= lineno <= len(self.lines):
            return self.lines[lineno - 1].origin
        return ('G', 'out of range')

    def fn_at(self, lineno):
        for sp in self.fn_spans:
            if sp['start'] <= lineno <= sp['end']:
                return sp
        return None
