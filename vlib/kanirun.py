"""Kani path (DESIGN 2.2): the real crate, nothing dropped.

A scratch copy of /repo/{Cargo.toml,Cargo.lock,src} is made outside /repo and /verif, the harness
modules under /verif/kani are *appended* to the source files they name (child modules see private
items; no original line is touched), `cargo kani` is run, and the copy is deleted.

kani/<group>.rs header directives:
    //@append src/<file>.rs
    //@harness <name> complete|bounded [expect=fail] [bound="..."]
    //@attrs src/<file>.rs <fn spec>        followed by `//| <attribute line>` lines (Kani contracts)
    //@trusted <text>                         assumption to report
"""
import os
import re
import shutil
import subprocess
import tempfile
import time

from gen import VERIF, REPO
from rsrc import Source, LostAnchor

CACHE = os.path.join(VERIF, '.cache')
KANI_FLAGS = ['-Z', 'function-contracts', '-Z', 'stubbing']


def parse_group(name):
    path = os.path.join(VERIF, 'kani', name + '.rs')
    txt = open(path).read()
    g = dict(name=name, append=None, harnesses=[], attrs=[], trusted=[], body=[])
    cur_attr = None
    for ln in txt.split('\n'):
        s = ln.strip()
        if s.startswith('//@append'):
            g['append'] = s.split()[1]
        elif s.startswith('//@harness'):
            parts = s.split(None, 3)
            h = dict(name=parts[1], complete=(parts[2] == 'complete'), expect='pass', bound='', group=name)
            rest = s.split(None, 3)[3] if len(parts) > 3 else ''
            m = re.search(r'expect=(\w+)', rest)
            if m:
                h['expect'] = m.group(1)
            m = re.search(r'bound="([^"]*)"', rest)
            if m:
                h['bound'] = m.group(1)
            m = re.search(r'timeout=(\d+)', rest)
            h['timeout'] = int(m.group(1)) if m else 900
            g['harnesses'].append(h)
        elif s.startswith('//@attrs'):
            _, f, spec = s.split(None, 2)
            cur_attr = dict(file=f, spec=spec, lines=[])
            g['attrs'].append(cur_attr)
        elif s.startswith('//|') and cur_attr is not None:
            cur_attr['lines'].append(s[3:].strip())
        elif s.startswith('//@trusted'):
            g['trusted'].append(s[len('//@trusted'):].strip())
        else:
            g['body'].append(ln)
    return g


def make_scratch(groups):
    d = tempfile.mkdtemp(prefix='jammdb-verif-kani-')
    for f in ('Cargo.toml', 'Cargo.lock'):
        shutil.copy(os.path.join(REPO, f), os.path.join(d, f))
    shutil.copytree(os.path.join(REPO, 'src'), os.path.join(d, 'src'))
    os.makedirs(os.path.join(d, '.cargo'), exist_ok=True)
    with open(os.path.join(d, '.cargo', 'config.toml'), 'w') as fh:
        fh.write('[net]\noffline = true\n')
    # attribute insertions first (positions from the pristine text), then appends
    by_file = {}
    for g in groups:
        for a in g['attrs']:
            by_file.setdefault(a['file'], []).append(a)
    for rel, attrs in by_file.items():
        S = Source(os.path.join(d, rel))
        ins = []
        for a in attrs:
            loc = S.find_fn(a['spec'])
            ins.append((loc['item_start'], '\n'.join(a['lines']) + '\n'))
        text = S.text
        for pos, t in sorted(ins, reverse=True):
            text = text[:pos] + t + text[pos:]
        open(os.path.join(d, rel), 'w').write(text)
    for g in groups:
        p = os.path.join(d, g['append'])
        if not os.path.exists(p):
            raise LostAnchor('kani group %s: %s missing' % (g['name'], g['append']))
        with open(p, 'a') as fh:
            fh.write('\n// ---- appended by /verif/kani/%s.rs ----\n' % g['name'])
            fh.write('\n'.join(g['body']) + '\n')
    # crate-level feature gates some harnesses need
    lib = os.path.join(d, 'src', 'lib.rs')
    t = open(lib).read()
    open(lib, 'w').write('#![cfg_attr(kani, feature(stmt_expr_attributes, proc_macro_hygiene))]\n' + t)
    return d


def run_groups(names, only=None, extra_flags=()):
    res = dict(harnesses=[], errors=[], trusted=[])
    try:
        groups = [parse_group(n) for n in names]
        d = make_scratch(groups)
    except LostAnchor as e:
        res['errors'].append('lost-anchor: %s' % e)
        return res
    except Exception as e:
        res['errors'].append('setup: %s' % e)
        return res
    try:
        env = dict(os.environ, CARGO_NET_OFFLINE='true', CARGO_TARGET_DIR=os.path.join(CACHE, 'kani-target'))
        os.makedirs(CACHE, exist_ok=True)
        for g in groups:
            res['trusted'] += g['trusted']
        hs = [h for g in groups for h in g['harnesses'] if only is None or h['name'] in only]
        if not hs:
            return res
        cmd = ['cargo', 'kani'] + KANI_FLAGS + list(extra_flags) + ['--output-format', 'terse', '-j', '8']
        for h in hs:
            cmd += ['--harness', h['name']]
        t0 = time.time()
        tmo = max(h['timeout'] for h in hs) + 600
        try:
            # one user of the shared Kani target directory at a time (checks may run side by side)
            import fcntl
            with open(os.path.join(CACHE, 'kani-target.lock'), 'w') as lk:
                fcntl.flock(lk, fcntl.LOCK_EX)
                p = subprocess.run(cmd, cwd=d, env=env, capture_output=True, text=True, timeout=tmo)
            out = p.stdout + '\n' + p.stderr
        except subprocess.TimeoutExpired as e:
            out = ((e.stdout or b'').decode(errors='replace') if isinstance(e.stdout, bytes) else (e.stdout or '')) + '\nTIMEOUT'
        wall = time.time() - t0
        res['raw'] = out[-20000:]
        # split per harness.  With -j the per-harness output is printed in blocks
        blocks = {}
        cur = None
        thread_h = {}
        for ln in out.split('\n'):
            tm_ = re.match(r'Thread (\d+): ?(.*)$', ln)
            if tm_:
                th, rest = tm_.group(1), tm_.group(2)
                m = re.match(r'Checking harness ([\w:]+)', rest)
                if m:
                    thread_h[th] = m.group(1).split('::')[-1]
                    blocks.setdefault(thread_h[th], [])
                cur = thread_h.get(th)
                if cur:
                    blocks[cur].append(rest)
                continue
            m = re.match(r'Checking harness ([\w:]+)', ln)
            if m:
                cur = m.group(1).split('::')[-1]
                blocks.setdefault(cur, [])
            if re.match(r'(Manual Harness Summary|Complete - |\s+Compiling |\s+Finished )', ln):
                cur = None
            if cur:
                blocks[cur].append(ln)
        for h in hs:
            b = '\n'.join(blocks.get(h['name'], []))
            r = dict(h)
            r['cmd'] = 'cargo kani %s --harness %s (scratch copy of /repo + /verif/kani/%s.rs)' % (' '.join(KANI_FLAGS), h['name'], h['group'])
            r['output'] = b
            r['wall_s'] = None
            tm = re.search(r'Verification Time: ([\d.]+)s', b)
            if tm:
                r['wall_s'] = float(tm.group(1))
            cm = re.search(r'\*\* (\d+) of (\d+) failed', b)
            r['checks'] = int(cm.group(2)) if cm else None
            r['failed_checks'] = re.findall(r'Failed Checks: (.*)', b)[:20]
            if 'VERIFICATION:- SUCCESSFUL' in b:
                r['status'] = 'success'
            elif 'VERIFICATION:- FAILED' in b and re.search(r'CBMC failed|out of memory|CBMC timed out|signal', b):
                r['status'] = 'undecided'
                r['reason'] = 'tool limit: ' + ' '.join(re.findall(r'CBMC[^\n]*', b))[:200]
            elif 'VERIFICATION:- FAILED' in b:
                # unwinding-assertion / unsupported-feature failures are "undecided", not violations
                fc = ' '.join(r['failed_checks'])
                # "... with missing definition is unreachable": the harness body itself was not linked in (damaged build artefacts, e.g.
                # two users of one target directory): a tool failure, never a verdict about the code
                TOOL = r'unwinding assertion|not currently supported|unsupported|with missing definition is unreachable'
                if re.search(TOOL, fc) and not [x for x in r['failed_checks'] if not re.search(TOOL, x)]:
                    r['status'] = 'undecided'
                    r['reason'] = 'tool limit: ' + fc[:200]
                else:
                    r['status'] = 'failed'
            else:
                r['status'] = 'undecided'
                r['reason'] = 'no verdict (compile error, timeout or out of memory): ' + out[-1500:]
            res['harnesses'].append(r)
        res['wall_s'] = wall
    finally:
        shutil.rmtree(d, ignore_errors=True)
    return res


def search_counterexample(pid, fl):
    """best-effort search for a failing input of the real code for a failed Verus obligation"""
    try:
        import cex
    except ImportError:
        return None
    return cex.search(pid, fl)
