"""Run Verus on a generated unit, map diagnostics back to named obligations."""
import json
import os
import re
import subprocess
import time

from gen import Unit, VERIF, Line, BUILD as _BUILD
from rsrc import mask, match_brace

BUILD = _BUILD

SEMANTIC = [
    (r'postcondition not satisfied', 'ensures'),
    (r'precondition not satisfied', 'call-pre'),
    (r'precondition not met', 'panic-free'),
    (r'assertion failed', 'assert'),
    (r'invariant not satisfied', 'invariant'),
    (r'loop ensures|ensures not satisfied', 'ensures'),
    (r'possible arithmetic (underflow|overflow)|possible division by zero|possible bit shift', 'overflow'),
    (r'decreases not satisfied|could not prove termination|decreases', 'termination'),
    (r'unreachable|panic', 'panic-free'),
    (r'index out of bounds|out of range', 'panic-free'),
]
RESOURCE = r'Resource limit|rlimit|timed? ?out|canceled'


def norm(s):
    return re.sub(r'\s+', ' ', s).strip()


class Clause:
    def __init__(self, fn, kind, ordinal, start, end, text, label, loop=None):
        self.fn, self.kind, self.ordinal, self.start, self.end = fn, kind, ordinal, start, end
        self.text, self.label, self.loop = text, label, loop

    def name(self):
        tag = self.label or str(self.ordinal)
        if self.loop:
            return '%s.loop%s.%s#%s' % (self.fn, self.loop, self.kind, tag)
        return '%s.%s#%s' % (self.fn, self.kind, tag)


def scan_obligations(unit):
    """Enumerate the obligations of a generated unit by scanning its text.
    returns (clauses, asserts, groups, fns) where fns maps fn name -> (start,end,kind)"""
    text = unit.text()
    m = mask(text)
    lines = text.split('\n')
    offs = [0]
    for l in lines:
        offs.append(offs[-1] + len(l) + 1)

    def lineno(idx):
        import bisect
        return bisect.bisect_right(offs, idx)

    # function spans: extracted fns (known) + template fns (proof/exec written in templates)
    fns = []
    for sp in unit.fn_spans:
        fns.append(dict(name=sp['key'], start=sp['start'], end=sp['end'], kind='exec-' + sp['mode'], extracted=True))
    for fm in re.finditer(r'(?m)^([ \t]*)(pub\s+)?(broadcast\s+)?(proof\s+|exec\s+)?fn\s+(\w+)', m):
        ln = lineno(fm.start())
        if any(f['start'] <= ln <= f['end'] for f in fns):
            continue
        pre = text[max(0, fm.start() - 200):fm.start()]
        if re.search(r'external_body\]\s*$', pre) or re.search(r'(spec|open spec|closed spec)\s*$', pre):
            continue
        indent = fm.group(1)
        # body open: first later line that is exactly indent + '{'
        k = ln
        body_open = None
        while k < len(lines):
            if lines[k].rstrip() == indent + '{' or (k == ln - 1 and lines[k].rstrip().endswith('{')):
                body_open = k + 1
                break
            if lines[k].rstrip().endswith(';') and lines[k].startswith(indent) and not lines[k].startswith(indent + ' '):
                break
            k += 1
        if body_open is None:
            continue
        ob = offs[body_open - 1] + len(indent)
        cb = match_brace(m, ob)
        kind = (fm.group(4) or 'exec').strip()
        fns.append(dict(name='%s::%s' % (unit.name, fm.group(5)), start=ln, end=lineno(cb), kind=kind,
                        extracted=False, body_open=body_open))
    for sp in unit.fn_spans:
        f = next(f for f in fns if f['name'] == sp['key'])
        f['body_open'] = next((i + 1 for i in range(sp['start'] - 1, sp['end'])
                               if unit.lines[i].origin == ('G', 'body open of ' + sp['key'])), None)

    def fn_of(ln):
        for f in fns:
            if f['start'] <= ln <= f['end']:
                return f
        return None

    clauses = []
    kw = re.compile(r'\b(requires|ensures|invariant_except_break|invariant|decreases|recommends)\b')
    for km in kw.finditer(m):
        ln = lineno(km.start())
        f = fn_of(ln)
        if f is None or f['kind'] == 'exec-decl':
            continue
        # keyword must start its line (clause lists in this code base always do)
        if text[offs[ln - 1]:km.start()].strip():
            continue
        kind = km.group(1)
        # clause list extends to the next clause keyword at line start, or the body `{`
        p = km.end()
        depth = 0
        items = []
        cur_start = None
        while p < len(m):
            ch = m[p]
            if depth == 0:
                nk = kw.match(m, p)
                if nk and not text[offs[lineno(p) - 1]:p].strip():
                    break
                if ch == '{' and not text[offs[lineno(p) - 1]:p].strip():
                    break
            if ch in '([{':
                depth += 1
            elif ch in ')]}':
                depth -= 1
                if depth < 0:
                    break
            if ch == ',' and depth == 0:
                if cur_start is not None:
                    items.append((cur_start, p))
                cur_start = None
            elif not ch.isspace() and cur_start is None:
                cur_start = p
            p += 1
        if cur_start is not None and m[cur_start:p].strip():
            items.append((cur_start, p))
        if kind in ('requires', 'recommends'):
            continue
        inside_body = f.get('body_open') and ln > f['body_open']
        loop_id = None
        if inside_body:
            # ordinal of the loop = number of distinct loop clause groups seen so far in this fn
            loop_id = f.setdefault('_loops', [])
            key = None
            # consecutive clause keywords of the same loop share the loop id: detect by `{` between
            prev = f.get('_last_clause_end')
            if prev is None or '{' in m[prev:km.start()]:
                loop_id.append(1)
            f['_last_clause_end'] = p
            loop_no = len(loop_id)
        ordn = 0
        for a, b in items:
            ordn += 1
            sl, el = lineno(a), lineno(b - 1)
            lab = re.search(r'//#([\w.\-]+)', '\n'.join(lines[sl - 1:el]))
            clauses.append(Clause(f['name'], kind if not inside_body else kind, ordn, sl, el,
                                  norm(text[a:b])[:300], lab.group(1) if lab else None,
                                  loop=loop_no if inside_body else None))
    asserts = []
    for am in re.finditer(r'\bassert\s*(\(|forall)', m):
        ln = lineno(am.start())
        f = fn_of(ln)
        if f is None:
            continue
        o = unit.origin(ln)
        if o[0] == 'S':
            continue        # a real assert!: part of panic-free
        if re.match(r'assert\s*!', text[am.start():am.start() + 10]):
            continue
        where = '%s:%s' % (o[1], o[2]) if o[0] == 'T' else ('%s:%s' % (o[3], o[4]) if o[0] == 'S+T' else 'gen:%d' % ln)
        asserts.append(dict(fn=f['name'], line=ln, name='%s.assert@%s' % (f['name'], where)))
    groups = []
    for f in fns:
        if f['kind'] == 'exec-decl':
            continue
        if f['kind'].startswith('exec'):
            groups += ['%s.overflow' % f['name'], '%s.panic-free' % f['name'], '%s.call-pre' % f['name'],
                       '%s.termination' % f['name']]
        else:
            groups += ['%s.proof-steps' % f['name']]
    return clauses, asserts, groups, fns


class Failure:
    def __init__(self, name, kind, message, site, rendered, fn):
        self.name, self.kind, self.message, self.site, self.rendered, self.fn = name, kind, message, site, rendered, fn

    def ident(self):
        return self.name + (' @ "%s"' % self.site if self.site else '')


class UnitResult:
    pass


def write_unit(unit, fname, vacuity=False, blank=()):
    os.makedirs(BUILD, exist_ok=True)
    lines = [l.text for l in unit.lines]
    for a, b in blank:                      # clause line ranges (1-based, inclusive) to leave out
        for k in range(a - 1, b):
            lines[k] = ''
    marks = {}
    if vacuity:
        _, _, _, fns = scan_obligations(unit)
        for f in fns:
            if f['kind'] == 'exec-decl' or not f.get('body_open'):
                continue
            bo = f['body_open']
            # keep line numbering: append to the same line as the opening brace
            lines[bo - 1] = lines[bo - 1] + (' assert(false);' if f['kind'] == 'proof' else ' proof { assert(false); }')
            marks[bo] = f['name']
    path = os.path.join(BUILD, fname)
    # written under a private name and moved into place: a check running side by side never reads a half-written unit
    tmp_ = '%s.%d.tmp' % (path, os.getpid())
    with open(tmp_, 'w') as fh:
        fh.write('\n'.join(lines) + '\n')
    os.replace(tmp_, path)
    return path, marks


def run_verus(path, timeout=600, rlimit=None, extra=()):
    cmd = ['verus', path, '--output-json', '--time-expanded', '--multiple-errors', '50', '--error-format=json']
    if rlimit:
        cmd += ['--rlimit', str(rlimit)]
    cmd += list(extra)
    t0 = time.time()
    try:
        p = subprocess.run(cmd, capture_output=True, text=True, timeout=timeout, cwd=os.path.dirname(path))
        out, err, rc = p.stdout, p.stderr, p.returncode
    except subprocess.TimeoutExpired as e:
        out, err, rc = (e.stdout or b'').decode() if isinstance(e.stdout, bytes) else (e.stdout or ''), 'TIMEOUT', 124
    wall = time.time() - t0
    js = None
    try:
        js = json.loads(out)
    except Exception:
        pass
    diags = []
    for ln in err.split('\n'):
        ln = ln.strip()
        if ln.startswith('{'):
            try:
                diags.append(json.loads(ln))
            except Exception:
                pass
    return dict(cmd=' '.join(cmd), rc=rc, json=js, diags=diags, stderr=err, wall=wall)


def classify(msg):
    if re.search(RESOURCE, msg, re.I):
        return 'resource'
    for rx, kind in SEMANTIC:
        if re.search(rx, msg):
            return kind
    return None


def clause_ranges(clauses, names, invert_for_fns=False):
    """line ranges of the ensures clauses named in `names`; with invert_for_fns: all OTHER ensures
    clauses of the functions that own a named clause"""
    picked = [c for c in clauses if c.name() in names]
    if not invert_for_fns:
        return [(c.start, c.end) for c in picked]
    fns = set(c.fn for c in picked)
    return [(c.start, c.end) for c in clauses if c.fn in fns and c.kind == 'ensures' and not c.loop and c.name() not in names]


def verify_unit(name, timeout=600, rlimit=None, known=()):
    """generate + verify + map.  Raises LostAnchor from generation.
    known: names of ensures clauses listed as known findings.  They are left out of the main run (so that
    everything else can be discharged) and checked on their own in a second run, where they must fail."""
    unit = Unit(name)
    clauses, asserts, groups, fns = scan_obligations(unit)
    known = set(n for n in known if any(c.name() == n for c in clauses))
    path, _ = write_unit(unit, name + '.rs', blank=clause_ranges(clauses, known))
    r = run_verus(path, timeout=timeout, rlimit=rlimit)
    if rlimit is None and any(d.get('level') == 'error' and re.search(RESOURCE, d.get('message', ''), re.I) for d in r['diags']):
        # a query that hits the default resource limit is retried once with a 10x budget before it counts as undecided
        r = run_verus(path, timeout=1500, rlimit=100)
    res = UnitResult()
    res.unit, res.path, res.raw = unit, path, r
    res.clauses, res.asserts, res.groups, res.fns = clauses, asserts, groups, fns
    res.failures, res.undecided = [], []
    res.cmd = r['cmd']
    js = r['json']
    base = os.path.basename(path)
    for d in r['diags']:
        if d.get('level') != 'error':
            continue
        msg = d.get('message', '')
        if msg.startswith('aborting due to') or msg.startswith('could not compile'):
            continue
        kind = classify(msg)
        spans = d.get('spans', [])
        for ch in d.get('children', []):
            spans = spans + ch.get('spans', [])
        ours = [s for s in spans if os.path.basename(s.get('file_name', '')) == base]
        if kind is not None and kind != 'resource' and not ours:
            # a semantic failure whose only span lies in a std/vstd macro expansion (e.g. a reachable `panic!`)
            res.failures.append(Failure('%s::<somewhere>.panic-free' % unit.name, 'panic-free', msg, '', d.get('rendered', '')[:4000],
                                        unit.name + '::<somewhere>'))
            continue
        if kind is None or kind == 'resource':
            res.undecided.append(dict(reason='resource' if kind == 'resource' else 'not-a-proof-failure',
                                      message=msg, rendered=d.get('rendered', '')[:3000]))
            continue
        prim = [s for s in ours if s.get('is_primary')] or ours
        pl = prim[0]['line_start']
        f = None
        for s in prim + ours:
            for fn in fns:
                if fn['start'] <= s['line_start'] <= fn['end']:
                    f = fn
                    break
            if f:
                break
        fname = f['name'] if f else unit.name + '::<toplevel>'
        site = ''
        o = unit.origin(pl)
        if o[0] in ('S', 'S+T'):
            site = norm(unit.lines[pl - 1].text)
        name_ = None
        if kind in ('ensures', 'invariant'):
            # the clause span: the span whose label mentions the failed clause, else any span inside a clause
            cand = None
            for s in ours:
                for c in clauses:
                    if c.start <= s['line_start'] <= c.end and c.kind != 'decreases':
                        lab = (s.get('label') or '')
                        if cand is None or 'failed' in lab:
                            cand = c
            if cand:
                name_ = cand.name()
                fname = cand.fn
                # exit site of a failed postcondition = the primary span when it is real code
                ex = [s for s in ours if not (cand.start <= s['line_start'] <= cand.end)]
                if ex and unit.origin(ex[0]['line_start'])[0] in ('S', 'S+T'):
                    site = norm(unit.lines[ex[0]['line_start'] - 1].text)
                else:
                    site = ''
        if name_ is None and kind == 'assert':
            a = next((a for a in asserts if a['line'] == pl), None)
            if a:
                name_ = a['name']
            elif o[0] == 'S':
                name_ = '%s.panic-free' % fname
        if name_ is None and kind == 'call-pre' and o[0] in ('S', 'S+T') and \
                re.search(r'\b(assert|debug_assert|panic|unreachable)!\s*\(|\.unwrap\(\)|\.expect\(', unit.lines[pl - 1].text):
            name_ = '%s.panic-free' % fname
        if name_ is None and kind == 'call-pre':
            if o[0] in ('S', 'S+T'):
                # callee contract in this file => call-pre; std (vstd spec) => panic-free
                other = [s for s in spans if s not in prim]
                in_vstd = any(os.path.basename(s.get('file_name', '')) != base for s in other)
                name_ = '%s.%s' % (fname, 'panic-free' if in_vstd and not any(
                    os.path.basename(s.get('file_name', '')) == base for s in other) else 'call-pre')
            else:
                name_ = '%s.proof-steps' % fname
        if name_ is None and kind in ('overflow', 'panic-free', 'termination'):
            if o[0] in ('S', 'S+T') or (f and f['kind'].startswith('exec')):
                name_ = '%s.%s' % (fname, kind)
            else:
                name_ = '%s.proof-steps' % fname
        if name_ is None:
            name_ = '%s.proof-steps' % fname if not (f and f['kind'].startswith('exec')) else '%s.%s' % (fname, kind)
        res.failures.append(Failure(name_, kind, msg, site, d.get('rendered', '')[:4000], fname))
    # clause isolation: a function that ran out of resources is re-run once per postcondition, with its other
    # postconditions blanked.  A clause that then fails CLEANLY (postcondition not satisfied, no resource-out in that
    # function) is a failed obligation; the function stays undecided only if nothing fails cleanly.
    res_fns = []
    for d in r['diags']:
        if d.get('level') == 'error' and classify(d.get('message', '')) == 'resource':
            for sp in d.get('spans', []):
                if os.path.basename(sp.get('file_name', '')) == base:
                    for fn in fns:
                        if fn['start'] <= sp['line_start'] <= fn['end'] and fn not in res_fns:
                            res_fns.append(fn)
    isolated = []
    for fn in res_fns[:2]:
        mine = [c for c in clauses if c.kind == 'ensures' and not c.loop and c.start >= fn['start'] and c.end <= fn['end'] and c.name() not in known]
        if not mine or len(mine) > 12:
            continue
        clean_fail = []
        for c in mine:
            blank = [(o.start, o.end) for o in mine if o is not c] + clause_ranges(clauses, known)
            p3, _ = write_unit(unit, name + '_iso.rs', blank=blank)
            r3 = run_verus(p3, timeout=timeout, rlimit=rlimit)
            b3 = os.path.basename(p3)
            fn_res, fn_fail = False, None
            for d3 in r3['diags']:
                if d3.get('level') != 'error':
                    continue
                sp3 = d3.get('spans', []) + [x for ch in d3.get('children', []) for x in ch.get('spans', [])]
                inside = [x for x in sp3 if os.path.basename(x.get('file_name', '')) == b3 and fn['start'] <= x['line_start'] <= fn['end']]
                if not inside:
                    continue
                k3 = classify(d3.get('message', ''))
                if k3 == 'resource':
                    fn_res = True
                elif k3 == 'ensures' and any(c.start <= x['line_start'] <= c.end for x in inside):
                    ex = [x for x in inside if not (c.start <= x['line_start'] <= c.end)]
                    site3 = norm(unit.lines[ex[0]['line_start'] - 1].text) if ex and unit.origin(ex[0]['line_start'])[0] in ('S', 'S+T') else ''
                    fn_fail = Failure(c.name(), 'ensures', d3.get('message', '') + ' (clause checked in isolation after the whole function ran out of resources)', site3,
                                      d3.get('rendered', '')[:4000], c.fn)
            if fn_fail is not None and not fn_res:
                clean_fail.append(fn_fail)
        if clean_fail:
            isolated.append(fn)
            res.failures += clean_fail
    if isolated:
        # the resource-out entries of the isolated functions are now explained by the cleanly failing clauses
        keep = []
        for u in res.undecided:
            if u['reason'] == 'resource' and len(isolated) >= len(res_fns):
                continue
            keep.append(u)
        res.undecided = keep
    # compile / tool errors without JSON results
    vr = (js or {}).get('verification-results') if js else None
    res.tool_ok = bool(js) and vr is not None and not vr.get('encountered-vir-error')
    if not res.tool_ok and not res.failures and not res.undecided:
        res.undecided.append(dict(reason='tool-error', message='verus produced no verification results',
                                  rendered=r['stderr'][-3000:]))
    if vr and vr.get('errors', 0) > 0 and not res.failures and not res.undecided:
        res.undecided.append(dict(reason='unmapped-error', message='verus reported errors that could not be mapped',
                                  rendered=r['stderr'][-3000:]))
    # per function timing
    res.fn_times = []
    try:
        for mt in js['times-ms']['smt']['smt-run-module-times']:
            for fb in mt.get('function-breakdown', []):
                res.fn_times.append(dict(function=fb['function'], mode=fb.get('mode:'), time_ms=fb['time'],
                                         rlimit=fb['rlimit'], success=fb['success']))
    except Exception:
        pass
    res.verified = vr.get('verified', 0) if vr else 0
    res.errors = vr.get('errors', 0) if vr else 0
    res.smt_ms = (js or {}).get('times-ms', {}).get('smt', {}).get('total', 0) if js else 0
    res.wall = r['wall']
    # obligation table
    failed_fns = set(fl.fn for fl in res.failures)
    names = [c.name() for c in clauses] + [a['name'] for a in asserts] + groups
    res.obligations = names
    failed_names = set(fl.name for fl in res.failures)
    res.status = {}
    for n in names:
        fn = n.split('.')[0] if False else None
    for c in clauses:
        res.status[c.name()] = 'failed' if c.name() in failed_names else ('unknown' if c.fn in failed_fns else 'discharged')
    for a in asserts:
        res.status[a['name']] = 'failed' if a['name'] in failed_names else ('unknown' if a['fn'] in failed_fns else 'discharged')
    for g in groups:
        gfn = g.rsplit('.', 1)[0]
        res.status[g] = 'failed' if g in failed_names else ('unknown' if gfn in failed_fns else 'discharged')
    for fl in res.failures:
        res.status.setdefault(fl.name, 'failed')
    if res.undecided or not res.tool_ok:
        for n in res.status:
            if res.status[n] == 'discharged':
                res.status[n] = 'unknown'
    # second run: the known-finding clauses on their own
    res.known_checked = {}
    if known:
        # one run per known clause (all the others of its function blanked): several failing postconditions in one query
        # make the solver run out of resources instead of failing cleanly
        for n in known:
            res.status[n] = 'unknown'
            res.known_checked[n] = 'no-longer-fails'
        for kn in sorted(known):
            kc = next(c for c in clauses if c.name() == kn)
            others = [(c.start, c.end) for c in clauses if c.fn == kc.fn and c.kind == 'ensures' and not c.loop and c.name() != kn]
            p2, _ = write_unit(unit, name + '_findings.rs', blank=others)
            r2 = run_verus(p2, timeout=timeout, rlimit=rlimit)
            base2 = os.path.basename(p2)
            resource2 = False
            for d in r2['diags']:
                if d.get('level') != 'error':
                    continue
                k2 = classify(d.get('message', ''))
                spans = d.get('spans', [])
                for ch in d.get('children', []):
                    spans = spans + ch.get('spans', [])
                ours = [sp for sp in spans if os.path.basename(sp.get('file_name', '')) == base2]
                if k2 == 'resource' and any(any(f['name'] == kc.fn and f['start'] <= sp['line_start'] <= f['end'] for f in fns) for sp in ours):
                    resource2 = True
                if k2 != 'ensures':
                    continue
                if any(kc.start <= sp['line_start'] <= kc.end for sp in ours):
                    ex = [sp for sp in ours if not (kc.start <= sp['line_start'] <= kc.end)]
                    site = norm(unit.lines[ex[0]['line_start'] - 1].text) if ex and unit.origin(ex[0]['line_start'])[0] in ('S', 'S+T') else ''
                    res.failures.append(Failure(kc.name(), 'ensures', d.get('message', ''), site, d.get('rendered', '')[:4000], kc.fn))
                    res.status[kc.name()] = 'failed'
                    res.known_checked[kc.name()] = 'fails'
            if res.known_checked[kn] != 'fails' and resource2:
                res.known_checked[kn] = 'undecided'
                res.undecided.append(dict(reason='resource', message='known-finding clause %s: the solver ran out of resources instead of refuting it' % kn, rendered=''))
    return res


def vacuity_check(name, timeout=900):
    """every function under contract must FAIL when `assert(false)` is put at the top of its body.
    refuted = the probe assertion fails (precondition satisfiable as far as the solver can tell);
    vacuous = the function verifies with the probe in place (contradictory precondition);
    inconclusive = the solver ran out of resources on the probe (recorded, not counted either way)."""
    unit = Unit(name)
    path, marks = write_unit(unit, name + '_vacuity.rs', vacuity=True)
    _, _, _, fns = scan_obligations(unit)
    r = run_verus(path, timeout=timeout)
    base = os.path.basename(path)
    hit, resource_fns = set(), set()
    if any(d.get('level') == 'error' and re.search(RESOURCE, d.get('message', ''), re.I) for d in r['diags']):
        r = run_verus(path, timeout=1500, rlimit=100)      # inconclusive probes are retried once with a 10x budget
    for d in r['diags']:
        if d.get('level') != 'error':
            continue
        msg = d.get('message', '')
        for s_ in d.get('spans', []):
            if os.path.basename(s_.get('file_name', '')) != base:
                continue
            if 'assertion failed' in msg and s_['line_start'] in marks:
                hit.add(s_['line_start'])
            if re.search(RESOURCE, msg, re.I):
                for f in fns:
                    if f['start'] <= s_['line_start'] <= f['end']:
                        resource_fns.add(f['name'])
    tool_ok = r['json'] is not None and (r['json'].get('verification-results') is not None)
    vacuous, inconclusive = [], []
    for l, fname in marks.items():
        if l in hit:
            continue
        if fname in resource_fns or not tool_ok:
            inconclusive.append(fname)
        else:
            vacuous.append(fname)
    return dict(probes=len(marks), refuted=len(hit), vacuous=vacuous, inconclusive=inconclusive, wall=r['wall'], cmd=r['cmd'])
