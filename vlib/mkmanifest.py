#!/usr/bin/env python3
"""writes /verif/MANIFEST.json from props.PROPS / props.NOT_APPLICABLE"""
import json, os, sys
sys.path.insert(0, os.path.dirname(os.path.abspath(__file__)))
import props
V = os.path.dirname(os.path.dirname(os.path.abspath(__file__)))
checks = []
for pid in sorted(props.PROPS):
    P = props.PROPS[pid]
    checks.append(dict(
        property_id=pid,
        quick_cmd='./check %s --tier quick' % pid,
        thorough_cmd='./check %s --tier thorough' % pid,
        evidence_file='/verif/evidence/%s.json' % pid,
        replay_cmd_template='./check %s --replay {path}' % pid,
        engine='contracts',
        level_claimed=dict(category=P['level'], text=P['level_text'], design_ref=P.get('design_ref', 'DESIGN.md section 6, ' + pid)),
        level_note=P['level_note'],
        technique=P.get('technique', 'contract-based deductive verification (Verus on mechanically extracted real function bodies; Kani function contracts / loop-free harnesses on the real crate)'),
    ))
m = dict(
    version=1,
    setup_cmd='./setup.sh',
    hooks=dict(guard='none', enable='no source hooks: Kani harnesses are appended to a scratch copy of /repo at check time',
               baseline_off_cmd='cd /repo && cargo test --workspace --no-fail-fast --offline',
               source_commits=[], add_only=True),
    engines=[dict(name='contracts', path='/verif/check', serves_properties=sorted(props.PROPS),
                  kind_free_text='extractor + contract templates -> Verus (Z3) per unit; Kani/CBMC harnesses appended to a scratch copy of the real crate')],
    checks=checks,
    notes='See DESIGN.md. exit 0 = all obligations discharged; exit 1 = VIOLATION; exit 2 = undecided (lost anchor / tool limit), never an alarm.',
    not_applicable=[dict(property_id=k, reason=v) for k, v in sorted(props.NOT_APPLICABLE.items()) if k not in props.PROPS],
)
json.dump(m, open(os.path.join(V, 'MANIFEST.json'), 'w'), indent=1)
print('MANIFEST.json: %d checks, %d not applicable' % (len(checks), len(m['not_applicable'])))
