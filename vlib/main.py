#!/usr/bin/env python3
"""/verif/check <Cxx> [--tier quick|thorough]   — decide one property (DESIGN 2.5)

exit 0  every obligation of the property discharged (known findings are printed, not alarms)
exit 1  VIOLATION property=<id> replay=<path>
exit 2  undecided (lost anchor, tool error, resource limit) — never an alarm
"""
import argparse
import concurrent.futures as cf
import hashlib
import json
import os
import re
import sys
import time
import traceback

sys.path.insert(0, os.path.dirname(os.path.abspath(__file__)))
import gen                      # noqa: E402
import verusrun                 # noqa: E402
import kanirun                  # noqa: E402
from props import PROPS         # noqa: E402
from rsrc import LostAnchor     # noqa: E402

VERIF = gen.VERIF
BASELINE = os.path.join(VERIF, 'baseline_obligations.json')
FINDINGS = os.path.join(VERIF, 'known_findings.txt')
TRUST_RX = re.compile(r'external_body|assume_specification|\bassume\s*\(|\badmit\s*\(|external_fn_specification|'
                      r'external_type_specification|#\[verifier::external\]|\baxiom\b|uninterp')


def load_findings():
    out = []
    if not os.path.exists(FINDINGS):
        return out
    for ln in open(FINDINGS):
        ln = ln.strip()
        if not ln.startswith('finding:'):
            continue
        m = re.match(r'finding:\s+property=(\S+)\s+obligation=(\S+)\s+(site="([^"]*)"\s+)?(.*)$', ln)
        if m:
            out.append(dict(props=m.group(1).split(','), obligation=m.group(2), site=m.group(4), what=m.group(5)))
    return out


def trusted_scan(unit):
    """mechanical scan of the generated file for everything that is assumed, not proved"""
    items = []
    lines = unit.lines
    for i, l in enumerate(lines):
        if l.text.strip().startswith('//'):
            continue
        m = TRUST_RX.search(l.text)
        if not m:
            continue
        if l.origin[0] == 'G' and 'decl of' in str(l.origin[1]):
            continue        # contract proved in its own unit; reported separately
        # name: next fn / the assume_specification target / the line itself
        ctx = ' '.join(x.text.strip() for x in lines[i:i + 4])
        nm = re.search(r'assume_specification\s*(<[^>]*>)?\s*\[([^\]]+)\]', ctx)
        if nm:
            items.append('assume_specification %s' % re.sub(r'\s+', '', nm.group(2)))
            continue
        nm = re.search(r'\bfn\s+(\w+)', ctx)
        ty = re.search(r'\b(struct|enum|type)\s+(\w+)', ctx)
        what = m.group(0).strip('( ')
        if nm and (not ty or ctx.index(nm.group(0)) < ctx.index(ty.group(0))):
            items.append('%s fn %s (%s)' % (what, nm.group(1), l.origin[1] if l.origin[0] == 'T' else 'gen'))
        elif ty:
            items.append('%s %s %s' % (what, ty.group(1), ty.group(2)))
        else:
            items.append('%s: %s' % (what, l.text.strip()[:100]))
    seen, out = set(), []
    for x in items:
        if x not in seen:
            seen.add(x)
            out.append(x)
    return out


def run_unit(name, do_vacuity=True, known=()):
    try:
        r = verusrun.verify_unit(name, known=known)
        vac = verusrun.vacuity_check(name) if do_vacuity and not r.undecided else None
        return name, r, vac, None
    except LostAnchor as e:
        return name, None, None, 'lost-anchor: %s' % e
    except Exception as e:
        return name, None, None, 'internal: %s\n%s' % (e, traceback.format_exc())


REPRO_OF = {'e1_': ['C02', 'C11'], 'e3_': ['C12'], 'e4_': ['C16'], 'e5_': ['C08'], 'e6_': ['C08', 'C07'], 'e7_': ['C08', 'C01', 'C07'],
            'e8_': ['C07', 'C08'], 'e9_': ['C01', 'C05'],
            'e10_': ['C05'], 'e11_': ['C05', 'C01'], 'e12_': ['C01']}


def run_reproductions(pid):
    """thorough tier, sanity net (not part of the proof): the reproductions of the defects recorded as `fixed:` are run on
    the real crate; one that fails again is reported as a violation"""
    import subprocess
    mine = [k for k, v in REPRO_OF.items() if pid in v]
    if not mine:
        return None
    try:
        p = subprocess.run([os.path.join(VERIF, 'replays', 'run.sh'), '', gen.REPO], capture_output=True, text=True, timeout=1200)
        out = p.stdout + p.stderr
    except Exception as e:
        return dict(error=str(e))
    res = dict(ran=[], returned=[], output=out[-400:])
    for line in out.split('\n'):
        m = re.match(r'test (e\d+_\w+) \.\.\. (\w+)', line)
        if m and any(m.group(1).startswith(k) for k in mine):
            res['ran'].append('%s=%s' % (m.group(1), m.group(2)))
            if m.group(2) != 'ok':
                res['returned'].append(m.group(1))
    return res


def readonly_census():
    """where does non-test code produce Error::ReadOnlyTx?  Backs the assumed contract `InnerBucket::* never
    answers ReadOnlyTx`: every occurrence must be a guard `return Err(Error::ReadOnlyTx)` in a function under contract."""
    import glob
    from rsrc import Source, line_of
    guard_fns = set()
    for key in ('Bucket_put', 'Bucket_delete', 'Bucket_create_bucket', 'Bucket_get_or_create_bucket', 'Bucket_delete_bucket',
                'Tx_create_bucket', 'Tx_get_or_create_bucket', 'Tx_delete_bucket', 'Tx_commit'):
        c = gen.Contract(key)
        S = gen.source(c.src_file)
        loc = S.find_fn(c.fn_spec)
        guard_fns.add((c.src_file, loc['body_open'], loc['body_close']))
    found, unexpected = [], []
    for f in sorted(glob.glob(os.path.join(gen.REPO, 'src', '*.rs'))):
        rel = os.path.relpath(f, gen.REPO)
        S = gen.source(rel)
        for m in re.finditer(r'ReadOnlyTx', S.masked):
            if S.in_test(m.start()) or rel == 'src/errors.rs':
                continue
            ln = line_of(S.text, m.start())
            inside = any(rel == g[0] and g[1] <= m.start() <= g[2] for g in guard_fns)
            found.append('%s:%d' % (rel, ln))
            if not inside:
                unexpected.append('%s:%d' % (rel, ln))
    return dict(occurrences=found, unexpected=unexpected)


def filelock_census():
    """frame condition behind C13: the advisory-lock API of fs4 (lock_exclusive / lock_shared / try_lock_* / unlock) is used
    nowhere in non-test code except inside DBInner::open, the function whose contract says when the lock is taken and which
    handle keeps it.  Any other occurrence (a Drop impl that unlocks, a second locking site) makes the property undecided."""
    import glob
    from rsrc import line_of
    c = gen.Contract('DBInner_open')
    S0 = gen.source(c.src_file)
    loc = S0.find_fn(c.fn_spec)
    found, unexpected = [], []
    for f in sorted(glob.glob(os.path.join(gen.REPO, 'src', '*.rs'))):
        rel = os.path.relpath(f, gen.REPO)
        S = gen.source(rel)
        for m in re.finditer(r'\b(lock_exclusive|lock_shared|try_lock_exclusive|try_lock_shared|unlock)\s*\(', S.masked):
            if S.in_test(m.start()):
                continue
            ln = line_of(S.text, m.start())
            found.append('%s:%d %s' % (rel, ln, m.group(1)))
            if not (rel == c.src_file and loc['body_open'] <= m.start() <= loc['body_close']):
                unexpected.append('%s:%d %s' % (rel, ln, m.group(1)))
    return dict(occurrences=found, unexpected=unexpected)


def main():
    ap = argparse.ArgumentParser()
    ap.add_argument('prop')
    ap.add_argument('--tier', default=os.environ.get('VERIF_TIER', 'quick'))
    ap.add_argument('--rebaseline', action='store_true')
    ap.add_argument('--no-kani', action='store_true')
    ap.add_argument('--no-canaries', action='store_true')
    ap.add_argument('--replay')
    a = ap.parse_args()
    if a.replay:
        print(open(a.replay).read())
        return 0
    pid = a.prop
    if pid not in PROPS:
        print('unknown or unclaimed property %s' % pid)
        return 2
    P = PROPS[pid]
    tier = 'thorough' if a.tier == 'thorough' else 'quick'
    seed = int(os.environ.get('VERIF_SEED', '0') or 0)
    t0 = time.time()
    baseline = json.load(open(BASELINE)) if os.path.exists(BASELINE) else {}
    findings = load_findings()

    undecided, violations, known, out_of_scope = [], [], [], []
    unit_results = {}
    with cf.ThreadPoolExecutor(max_workers=8) as ex:
        kn = [k['obligation'] for k in findings]      # left out of the main run for every property; reported only where listed
        futs = [ex.submit(run_unit, u, True, kn) for u in P['units']]
        kfut = None
        if not a.no_kani:
            groups = list(P.get('kani_quick', [])) + (list(P.get('kani_thorough', [])) if tier == 'thorough' else [])
            if groups:
                kfut = ex.submit(kanirun.run_groups, groups)
        for f in futs:
            name, r, vac, err = f.result()
            unit_results[name] = (r, vac, err)
        kres = kfut.result() if kfut else None

    obligations, discharged = 0, 0
    samples, fn_contracts, rewrites, fn_times, trusted = [], [], [], [], []
    checker_cmds = []
    vac_info = []
    smt_ms = 0
    for name in P['units']:
        r, vac, err = unit_results[name]
        if err:
            undecided.append('%s: %s' % (name, err))
            continue
        checker_cmds.append(r.cmd)
        smt_ms += r.smt_ms
        names = [n for n in r.obligations if n not in getattr(r, 'known_checked', {})]
        obligations += len(names)
        discharged += sum(1 for n in names if r.status.get(n) == 'discharged')
        for u in r.undecided:
            undecided.append('%s: %s: %s' % (name, u['reason'], u['message'][:300]))
        base = set(baseline.get(name, []))
        if not a.rebaseline and base:
            miss = base - set(names)
            if miss:
                undecided.append('%s: %d baseline obligations no longer generated (e.g. %s)'
                                 % (name, len(miss), sorted(miss)[0]))
        for fl in r.failures:
            kf = next((k for k in findings if k['obligation'] == fl.name
                       and (k['site'] is None or k['site'] == fl.site)), None)
            if kf and pid in kf['props']:
                known.append((fl, kf))
            elif kf:
                out_of_scope.append(fl.ident())     # a finding recorded for another property that shares this unit
            else:
                violations.append((fl, r, fl.name in base))
        if vac:
            vac_info.append(dict(unit=name, probes=vac['probes'], refuted=vac['refuted'], vacuous=vac['vacuous'], inconclusive=vac.get('inconclusive', [])))
            if vac['vacuous']:
                undecided.append('%s: vacuity probe verified (contradictory precondition?) in %s' % (name, vac['vacuous']))
        for p in r.unit.prov:
            fn_contracts.append(dict(unit=name, **{k: p[k] for k in ('key', 'file', 'lines', 'sha256', 'mode')},
                                     rewrites=[w['rule'] for w in p['rewrites']]))
        rewrites += r.unit.rewrites
        fn_times += [dict(unit=name, **t) for t in r.fn_times]
        trusted += ['[%s] %s' % (name, t) for t in trusted_scan(r.unit)]
        for c in r.clauses[:400]:
            if len(samples) < 6 and c.kind == 'ensures' and not c.loop and r.unit.fn_at(c.start):
                samples.append(dict(obligation=c.name(), clause=c.text, status=r.status.get(c.name())))

    # Kani
    bounded = []
    kani_info = []
    # bounded stand-in (DESIGN 2.5): a unit the verifier could not decide (construct outside Verus' reach, lost anchor)
    # gets its executable oracles run on the real crate over a small grid.  A failing input is a violation with a
    # concrete replay; finding nothing proves nothing and the unit stays undecided.
    bounded_found = []
    if not a.no_kani:
        try:
            import cex as cexmod
            todo = []       # (group, reason)
            for name in P['units']:
                r, vac, err = unit_results[name]
                und = bool(err or (r is not None and r.undecided))
                if not und and tier != 'thorough':
                    continue
                for g in cexmod.groups_for_unit(name):
                    todo.append((g, ('unit %s undecided by Verus' % name) if und else 'thorough tier: executable contract clauses on the real crate', name))
            # oracles that stand in, on every run, for functions of this property that are outside the verifier's reach
            for gname, why in P.get('bounded_quick', []):
                g = next((g for g in cexmod._groups() if os.path.basename(g['file']) == gname + '.rs'), None)
                if g is not None:
                    todo.append((g, 'stands in for functions outside the verifier\'s reach: ' + why, '-'))
            seen = set()
            for g, reason, name in todo:
                gname = os.path.basename(g['file'])
                if gname in seen:
                    continue
                seen.add(gname)
                res = cexmod.run_group(g)
                bounded.append(dict(harness='cex/' + gname, bound='small input grid, see the file', status='failed' if res['found'] else 'no failing input', reason=reason))
                if res['found']:
                    # a failing input that carries `[finding-key K]` is matched against known_findings.txt (obligation=bounded.<group>
                    # site="K"): listed for this property -> KNOWN-FINDING; listed for another property only -> not this property's
                    # business; every other failing input is a violation
                    oname = 'bounded.%s' % gname[:-3]
                    lines = re.findall(r'CEX [^\n]*', res['text'])
                    rest = []
                    for ln in lines:
                        km = re.search(r'\[finding-key ([\w-]+)\]', ln)
                        kfs = [k for k in findings if km and k['obligation'] == oname and k['site'] == km.group(1)]
                        if kfs and any(pid in k['props'] for k in kfs):
                            kf = next(k for k in kfs if pid in k['props'])
                            known.append((verusrun.Failure(oname, 'bounded', 'recorded finding reproduced by the bounded stand-in', km.group(1), ln, gname), kf))
                        elif kfs:
                            out_of_scope.append('%s @ "%s"' % (oname, km.group(1)))
                        else:
                            rest.append(ln)
                    if rest or not lines:
                        txt = res['text'] if len(rest) == len(lines) else ('failing input(s) found on the real crate (scratch copy + appended test module %s):\n%s\n' % (gname, '\n'.join(rest)))
                        fl = verusrun.Failure(oname, 'bounded', 'bounded stand-in found a failing input on the real code (%s)' % reason[:80],
                                              '', txt, gname)
                        bounded_found.append(fl)
                        violations.append((fl, None, True))
                    else:
                        bounded[-1]['status'] = 'only recorded findings reproduced'
        except Exception as e:
            undecided.append('bounded stand-in: %s' % e)
    if kres:
        for h in kres['harnesses']:
            kani_info.append({k: h[k] for k in ('name', 'group', 'complete', 'bound', 'status', 'wall_s', 'checks', 'failed_checks')})
            checker_cmds.append(h['cmd'])
            if h['status'] == 'undecided':
                undecided.append('kani %s: %s' % (h['name'], h.get('reason', '')))
                continue
            if h.get('expect') == 'fail':
                # negative harness (vacuity guard the other way round): must fail
                ok = h['status'] == 'failed'
                if h['complete']:
                    obligations += 1
                    discharged += 1 if ok else 0
                if not ok:
                    undecided.append('kani negative harness %s unexpectedly verified' % h['name'])
                continue
            if h['complete']:
                obligations += 1
                discharged += 1 if h['status'] == 'success' else 0
            else:
                bounded.append(dict(harness=h['name'], bound=h['bound'], status=h['status']))
            if h['status'] == 'failed':
                fl = verusrun.Failure('kani.%s' % h['name'], 'kani', 'Kani harness failed', '', h['output'][-4000:], h['name'])
                kf = next((k for k in findings if pid in k['props'] and k['obligation'] == fl.name), None)
                if kf:
                    known.append((fl, kf))
                else:
                    violations.append((fl, None, ('kani.' + h['name']) in set(baseline.get('kani', []))))
        for e in kres.get('errors', []):
            undecided.append('kani: ' + e)
        trusted += ['[kani] ' + t for t in kres.get('trusted', [])]

    if a.rebaseline:
        for name in P['units']:
            r, vac, err = unit_results[name]
            if r is not None:
                baseline[name] = sorted(n for n in r.obligations if r.status.get(n) == 'discharged')
        if kres:
            ks = set(baseline.get('kani', []))
            ks |= set('kani.' + h['name'] for h in kres['harnesses'] if h['status'] == 'success')
            baseline['kani'] = sorted(ks)
        json.dump(baseline, open(BASELINE, 'w'), indent=1, sort_keys=True)
        print('baseline rewritten for units %s' % P['units'])

    # thorough tier extras: canary mutants (contract strength) and the defect reproductions on the real crate
    canary_info, repro_info = None, None
    if tier == 'thorough' and not a.no_canaries:
        try:
            import canary
            cres = canary.run_for(prop=pid)
            eq = getattr(canary, 'CANARY_EXPECT_NOT_KILLED', set())
            real = [c for c in cres if c['name'] not in eq]
            eqs = [c for c in cres if c['name'] in eq]
            canary_info = dict(run=len(real), killed=sum(1 for c in real if c['status'] == 'killed'),
                               survived=[c['name'] for c in real if c['status'] == 'SURVIVED'],
                               undecided=[c['name'] for c in real if c['status'] not in ('killed', 'SURVIVED')],
                               # semantics-preserving edits: exit 1 on one of them is a false alarm of the check
                               equivalent_edits=dict(run=len(eqs), not_alarmed=[c['name'] for c in eqs if c['status'] != 'killed'],
                                                     false_alarms=[c['name'] for c in eqs if c['status'] == 'killed']))
        except Exception as e:
            canary_info = dict(error=str(e))
        repro_info = run_reproductions(pid)
        for name in (repro_info or {}).get('returned', []):
            fl = verusrun.Failure('replay.%s' % name, 'replay', 'a defect recorded as fixed reproduces again on the real crate', '',
                                  repro_info.get('output', '')[-3000:], name)
            violations.append((fl, None, True))

    census = None
    if P.get('census') == 'ReadOnlyTx':
        census = readonly_census()
        if census['unexpected']:
            undecided.append('census: Error::ReadOnlyTx is produced outside the nine guards: %s' % census['unexpected'])
    if P.get('census') == 'filelock':
        census = filelock_census()
        if census['unexpected']:
            undecided.append('census: the advisory-lock API is used outside DBInner::open: %s' % census['unexpected'])

    # verdict
    wall = time.time() - t0
    out_lines = []
    for fl, kf in known:
        out_lines.append('KNOWN-FINDING: property=%s %s — %s' % (pid, fl.ident(), kf['what']))
    real_viol = []
    replay_path = None
    if violations:
        texts, any_found = [], False
        for fl, r, in_base in violations:
            extra = ''
            cex = None
            if fl.kind == 'bounded':
                cex = dict(found=True, text=fl.rendered)
            elif not a.no_kani:
                try:
                    cex = kanirun.search_counterexample(pid, fl)
                except Exception as e:      # best effort; never turns a violation into an error
                    extra = 'failing-input search failed: %s' % e
            if cex:
                extra = cex.get('text', '')
                any_found = any_found or bool(cex.get('found'))
            texts.append((fl, r, extra))
            real_viol.append((fl, None, '', in_base))
        d = os.path.join(VERIF, 'replays', 'violations')
        os.makedirs(d, exist_ok=True)
        h = hashlib.sha256('|'.join(sorted(fl.ident() for fl, _, _ in texts)).encode()).hexdigest()[:10]
        replay_path = os.path.join(d, '%s-%s.txt' % (pid, h))
        with open(replay_path, 'w') as fh:
            fh.write('property: %s\nfailed obligations (%d):\n' % (pid, len(texts)))
            for fl, r, extra in texts:
                fh.write('  - %s   [%s]\n' % (fl.ident(), fl.message))
            for fl, r, extra in texts:
                fh.write('\n' + '=' * 100 + '\nfailed obligation: %s\nkind: %s\n' % (fl.ident(), fl.kind))
                if r is not None:
                    fh.write('verifier: %s\ngenerated file (real code + contracts): %s\n' % (r.cmd, r.path))
                fh.write('--- verifier output ---\n%s\n' % fl.rendered)
                if extra:
                    fh.write('--- failing-input search / replay on the real code ---\n%s\n' % extra)
        viol_tail = '' if any_found else ' no-failing-input-found'

    level = P['level']
    ev = dict(
        property_id=pid, tier=tier, seed=seed, level=level,
        coverage=dict(
            obligations=obligations, discharged=discharged,
            checker_cmd=' ; '.join(sorted(set(checker_cmds)))[:4000],
            trusted_base=sorted(set(trusted)),
            explanation=P['explanation'],
            samples=samples or [dict(note='no ensures clause sampled')],
            units=P['units'],
            functions_under_contract=fn_contracts,
            rewrites_applied=rewrites,
            per_function_solver=fn_times,
            solver_ms=smt_ms,
            backends='Verus 0.2026.09.13 (Z3) for units; Kani 0.68 / CBMC 6.11 for harnesses',
            bounded_obligations=bounded,
            kani=kani_info,
            vacuity_probes=vac_info,
            composition=P.get('composition', 'paper (DESIGN section 5/6); unit obligations machine-checked'),
            not_covered=P.get('not_covered', []),
            census=census,
            canaries=canary_info,
            reproductions=repro_info,
            known_findings=[dict(obligation=fl.ident(), what=kf['what']) for fl, kf in known],
            known_finding_obligations_excluded_from_counts=len(known),
            findings_of_other_properties_in_shared_units=out_of_scope,
            undecided=undecided,
            failed=[fl.ident() for fl, _, _, _ in real_viol],
        ),
        assumptions=P.get('assumptions', []),
        wall_s=round(wall, 2),
        violations=len(real_viol),
    )
    os.makedirs(gen.EVIDENCE, exist_ok=True)
    with open(os.path.join(gen.EVIDENCE, pid + '.json'), 'w') as fh:
        json.dump(ev, fh, indent=1)

    for l in out_lines:
        print(l)
    print('%s [%s]: %d obligations, %d discharged, %d known findings, %d violations, %d undecided; %.1fs (solver %d ms)'
          % (pid, tier, obligations, discharged, len(known), len(real_viol), len(undecided), wall, smt_ms))
    if bounded:
        print('  bounded (not counted as proved): %s' % ', '.join('%s[%s]=%s' % (b['harness'], b['bound'], b['status']) for b in bounded))
    for u in undecided:
        print('  UNDECIDED: %s' % u[:600])
    if real_viol:
        for fl, path, tail, in_base in real_viol:
            print('  failed obligation: %s (%s)%s' % (fl.ident(), fl.message, '' if in_base else ' [not in baseline]'))
        print('VIOLATION property=%s replay=%s%s' % (pid, replay_path, viol_tail))
        return 1
    if undecided:
        return 2
    return 0


if __name__ == '__main__':
    sys.exit(main())
