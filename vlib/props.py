"""Property -> deciding units (DESIGN section 0/6).  Filled in as units are built."""

A_TOOLS = 'tools trusted: Verus 0.2026.09.13 + Z3, rustc 1.98.1 front end, Kani 0.68 + CBMC 6.11, the extractor (provenance hashes + rewrite log in this file)'
A_ARITH = 'machine arithmetic is NOT treated as mathematical: every u64/usize operation is an overflow obligation; usize == u64 (64-bit target)'

A_HANDLES = 'the map of open child-bucket handles (prelude/bucketcommit.rs): its iterators list every open child once, the handles form a finite tree (depth measure: recursion of is_dirty / rebalance / spill terminates), an open child has its entry in the parent tree (children_have_entries); Node::spill and merge_nodes are ASSUMED to touch the allocator only through TxFreelist::{allocate, free} and to free only pages of the tree they were handed, which lie below the high-water mark (pend_in_range clause of tree_frame) (tree_frame) and not the bucket header / flags / journal'
A_SERIAL = 'Page::{branch_elements_mut, leaf_elements_mut, slice} hand out `count` element headers / `size` bytes behind the 32-byte header prefix and leave the other header fields alone (raw-pointer casts, decl only; read-side twins pinned by Kani k1_element_slices / k1_payload_addressing); io::Write for &mut [u8] copies to the front, advances and fails only when the data does not fit (std documentation; rule R24); slice_at_mut is IndexMut'
A_CELLFIN = 'unit markdel only: RefCell::fin(), the value a cell is left with when the RefMut taken by the function under contract dies (prelude/cell_fin.rs; sound where a function borrows each cell mutably at most once per call, which holds for mark_deleted); that delete_bucket calls mark_deleted on the removed handle is held by the bounded oracle cex_history_stale_handles_below_a_deleted_bucket, not by a contract'
A_HASHSET = 'std HashSet<u64> / HashMap<u64,u64> per vstd (group_hash_axioms: u64 obeys the key model, RandomState builds valid hashers); `(a..b).collect()` into a HashSet is exactly the ids a..b (stub U24)'

PROPS = {}

PROPS['C10'] = dict(
    level='proof',
    composition='Verus lemmas L3 (contracts/lemmas.vtmpl: lemma_reuse_without_reader, lemma_retained_under_reader, lemma_reuse_resumes) on top of L2',
    units=['freelist', 'txn', 'commit', 'open', 'lemmas', 'nodeio', 'bucketops', 'bucketcommit'],
    bounded_quick=[('commit', 'that the high-water mark of a whole HISTORY reaches a plateau (rollbacks, reopen, a large scattered free list, multi-page values) is a statement over many commits; per call it is F1/F2/X1 (proved). cex/commit.rs runs such histories on the real crate and compares the high-water mark early and late')],
    explanation='Freed space is reused: release is an equality (F2: nothing kept back, nothing released early), the bound a writer passes is the oldest open reader or itself (X1) '
                'and a closing reader removes exactly its own id keeping the list ascending (X2); allocate is first-fit and COMPLETE (F1: None only if no run exists) and the file is '
                'extended only on None (T1); what is persisted is free + pending with exact length/multiset accounting (F4, W1 w6) and the old free-list run itself is released; '
                'on open the list of the newest valid header is loaded (O1, F5).',
    assumptions=[A_TOOLS, A_ARITH],
    not_covered=['the plateau over thousands of transactions is a corollary, not measured'],
)

PROPS['C10'].update(
    level_text='Every function of the free-list layer that the property depends on carries a machine-checked contract on its real body, for all inputs, no bound.',
    level_note='Assumes the B-tree layer frees only pages of its own snapshot (A1); std collections per vstd specs; prelude shims listed in evidence.trusted_base.',
)

A_FNV = 'H0: the `fnv` crate implements FNV-1a (prelude stand-in FnvHasher: finish() == fnv1a(bytes written)); H1: no FNV-1a collision between a header and a multi-byte-damaged variant (single-byte damage is proved: lemma_fnv_one_byte)'
A_VIEWS = 'page/header views into the map are uninterpreted functions of (bytes, page id, page size) (prelude/mmap.rs); their field offsets are pinned on the real casts by Kani unit K1, their alignment/bounds precondition by K4; two header slots are assumed to have different 40-byte page headers (modelling restriction of the view stubs)'
A_SEQ = 'sequential view of Mutex/RwLock (prelude/sync.rs): a lock yields the value current at that call, locks are never poisoned'

PROPS['C12'] = dict(
    bounded_quick=[('meta', 'single-byte damage of a header record changes its checksum (all offsets, all bit flips, on the real hash)'), ('header', 'that the state behind the intact header is COMPLETE (its pages were not recycled by the newest commit) needs the tree layer and the whole commit path, outside the verifier\'s reach as one argument; the oracle damages one header page of files with 0..3 commits and requires contents, DB::check() and a further commit')],
    level='proof',
    composition='Verus lemmas L4: lemma_single_byte_damage_detected / lemma_hash_field_damage_detected (meta unit, from the proved FNV-1a sensitivity lemmas), lemma_fallback_to_intact_slot / lemma_newest_wins (db unit)',
    units=['meta', 'db', 'freelist', 'open', 'commit', 'nodeio', 'txn'],
    kani_quick=['layout'],
    explanation='DBInner::open (unit open): on a file with one intact header opening fails only when the operating system refuses the lock or the mapping (never a rejection or panic derived from the other slot). Header damage falls back: DBInner::meta returns exactly select_header (newest slot that is tagged META and whose checksum '
                'matches; current format first, then legacy) with the other slot ARBITRARY, never panics under that precondition (M3); '
                'Meta::valid is hash == FNV-1a of the pinned 60 bytes (M1); one-byte changes of the hashed bytes change the hash '
                '(M1-sens, proved by bit-vector + induction); pages freed by the newest commit sit in pending[tx] which allocate never touches (F1, F3), and the commit itself releases nothing: its pending lists are those it began with plus what it freed, the old free-list run included (unit commit: TxInner::write_data w6 and the pending frame), so the snapshot of the OTHER header stays whole until the next writer begins.',
    level_text='Machine-checked contracts on the real bodies of DBInner::meta, Page::meta/old_meta, Meta::valid/hash_self, OldMeta::*, From<&OldMeta>, for all file contents; layout pins by complete (loop-free, fully symbolic) Kani harnesses.',
    level_note='Trusted: FNV-1a/SHA3 crates, page-view stubs (field offsets checked by K1), multi-byte damage relies on H1. Lemma L4 (composition) is on paper.',
    assumptions=[A_TOOLS, A_ARITH, A_FNV, A_VIEWS, A_SEQ, 'SHA3-256 is an uninterpreted function of the hashed bytes (legacy header)'],
    not_covered=['that the state shown after fallback is complete (needs the tree layer: A1/INV-live)', 'multi-byte damage beyond H1'],
)

PROPS['C15'] = dict(
    bounded_quick=[('history', 'what reaches the file at page sizes that are not a power of two (1032, 3000: the buffer a page run is written from, growth in 8 MiB steps, reopen) is the product of the allocator, the serialiser and the commit; cex/history.rs replays seeded histories under those page sizes with reopen, check() and a reference map'), ('checker', 'files written by the pinned release hold arbitrary values in the bytes the layout leaves unassigned (padding behind the page type and the entry kind); that the current reader ignores them is a statement about every file of the old writer, which no golden file is available for: cex/checker.rs scribbles over all padding bytes of healthy files and requires identical contents, check() and a further commit')],
    level='proof',
    units=['meta', 'db', 'open', 'writenode', 'freelist', 'nodeio', 'commit', 'pagenode', 'split'],
    kani_quick=['layout', 'frombuf'],
    explanation='Files written by the current code conform to the layout the readers expect: Page::write_node (unit writenode) writes the page header (kind, count) and, for every entry, an element header whose offset and lengths are the ones LeafElement / BranchElement::key / value read back (offsets pinned by Kani k1_element_layout / k1_payload_addressing). '
                'The golden files are replaced by the pinned layout written into the contracts: K1 pins every field offset/size/tag of Page, '
                'Meta, OldMeta, LeafElement, BranchElement, BucketMeta on the real casts (complete Kani harnesses); M1/M2 pin the checksum input '
                '(60 big-endian bytes in fixed order; FNV-1a resp. SHA3-256); M3 pins header selection incl. legacy fallback and refuses a foreign page size by the documented assertion.',
    level_text='Contracts on the real header code for all inputs (Verus) plus complete Kani layout harnesses over fully symbolic buffers.',
    level_note='Trusted: fnv and sha3 crates, bytes writer stand-in. Any change of field order, width, checksum input or tag constants fails a named obligation.',
    assumptions=[A_TOOLS, A_ARITH, A_FNV, A_VIEWS, A_SEQ, A_SERIAL],
    not_covered=['logical contents of golden files with nested buckets / multi-page values (tree layer not under contract)', 'tx_id == 0 of a fresh header (zeroed buffer, never assigned: outside the page-construction model)'],
)

A_FILE = 'std::fs::File is a stand-in with a ghost I/O trace (prelude/file.rs): seek/write_all/flush/sync_all append one event and may fail nondeterministically; sync_all is modelled with &mut self; a write() is visible through the shared mapping (Linux unified page cache)'
A_TREE = 'A1/A2: the B+tree layer (InnerBucket::*, not under contract) frees only pages of its own snapshot or of this transaction, and the new tree lives in old-live minus freed plus allocated pages; INV-live: pages reachable from the current header are disjoint from the free set; fl_nodup: no double free'
A_PAGEMUT = 'in-memory page construction (prelude/pagemut.rs): the header record / free-list entries behind a &mut Page are ghost projections of the Page value (stubs U4, U11, U12); arena blocks carry ghost length and alignment (prelude/arena.rs)'

PROPS['C02'] = dict(
    level='proof',
    composition='MACHINE-CHECKED: theorem_crash_atomicity / corollary_durable_after_ok (unit crash, prelude/crash_spec.rs) from the clause predicates (w1)-(w3) of write_data (lemma_clauses_from_contract) and the recovery oracle select_header of DBInner::meta; remaining paper steps: allocated pages are disjoint from the old tree (T1/F1 + INV-live, lemma L2). H1 (a torn header slot is valid only if complete or unchanged) is the theorem\'s hypothesis and is FALSE in one reachable state: the first commit after a recovery from a torn header write reuses the dead commit\'s transaction id and slot (known finding E14, reproduced by cex_commit_two_power_losses on every run)',
    units=['commit', 'freelist', 'meta', 'db', 'crash', 'open', 'nodeio', 'bucketops', 'bucketcommit'],
    kani_quick=['layout'],
    bounded_quick=[('commit', 'H1, the hypothesis of the crash theorem (a header slot caught half-written is valid only if complete or unchanged), is a statement about the checksum and about what the slot held BEFORE the write; it cannot be a postcondition of any function.  cex/commit.rs builds the crash images of real commits (every prefix of the writes, subsets of the unsynced writes, the header torn at 8-byte words, also across TWO consecutive power losses) and reopens each; where H1 fails on the real code (finding E14) the image is reported under its own key')],
    explanation='Crash atomicity: TxInner::write_data is verified on its real body against a file stand-in whose every operation may fail: '
                '(w1) every data write targets a page allocated in this transaction (T1/F1: from the free set or fresh, never a live page), '
                '(w2) one header write, to the other slot, carrying exactly the transaction meta with a fresh checksum, and it is the last write, '
                '(w3) ORDER data-writes* . Sync . header . Sync on Ok, every allocated page written; M1/M3 give recovery = newest valid header. '
                'Lemma L1 is PROVED in unit crash over exactly these clause predicates: the file is a byte sequence, a process kill leaves a prefix of the commit\'s writes applied, a power loss leaves everything before the last completed sync '
                'plus ARBITRARY bytes wherever a later write touches (this covers every subset of the unsynced writes and tearing at any granularity); for every crash point recovery (select_header) reads either the old header and every byte the commit does not write is as before, '
                'or the new header and every data write of the commit is completely on the disk; after Ok only the latter. Dropping (w3) from the hypotheses makes the proof fail (that was defect E1).',
    level_text='Every path of the real commit code (including all error exits) is proved against the trace contract; no bound on pages, sizes or history.',
    level_note='Assumes the file/trace stand-in semantics, the tree layer frame A1/A2/INV-live, FNV (H0/H1: a half-written header slot is valid only if complete or unchanged; H1 is FALSE for the first commit after a recovery from a torn header write -- known finding E14, reproduced by the bounded oracle on every run and printed as KNOWN-FINDING), view locality (page views are functions of the page\'s bytes). L1 starts from a state whose newest header is a current-format header (the first commit on a legacy-format file is outside it). Known finding E2 listed.',
    assumptions=[A_TOOLS, A_ARITH, A_FILE, A_TREE, A_FNV, A_VIEWS, A_SEQ, A_PAGEMUT],
    not_covered=['rebalance/spill/merge of the tree layer', 'that the pages a commit allocates are disjoint from the old tree is L2 (unit lemmas) + T1/F1, joined to L1 on paper', 'the first commit on a legacy-format (<= 0.10) file'],
)
PROPS['C11'] = dict(
    bounded_quick=[('commit', 'every I/O call of real commits fails in turn (error, short write with and without a following error, failed extension) on the real crate, followed by further transactions and a reopen: the executable statement of C11, run on every check and not only when unit commit is undecided')],
    level='proof',
    units=['commit', 'freelist', 'open', 'nodeio', 'txn', 'bucketcommit'],
    explanation='I/O errors in commit: every seek/write_all/flush/sync_all/metadata/resize in write_data may return Err in the stand-in; the `?` on each is the proof '
                'that the error is propagated and nothing panics (all arithmetic/bounds obligations discharged under the stated size bound). '
                '(w4a): an Err return after the header write can only come from the two known exits; (w4b)/(w4c) are the known finding E2.',
    level_text='All fault sequences symbolically: each I/O call may fail independently on every path of the real code.',
    level_note='Known finding E2 (Err after the header was written) is listed in known_findings.txt and printed, not alarmed. Same trusted base as C02.',
    assumptions=[A_TOOLS, A_ARITH, A_FILE, A_SEQ, A_PAGEMUT],
    not_covered=['behaviour of later transactions after E2 (demonstrated by replays/repro.rs e2 / e2b)', 'a failed mmap after a successful extension (fault class not listed in the property; observed, see DESIGN 11.4)'],
)

PROPS['C03'] = dict(
    bounded_quick=[('snapshot', 'single-threaded interleavings of readers of different ages with committing and rolling-back writers, every reader re-verified in full after every step, on the real crate: the executable statement of C03, run on every check'), ('freelist', 'Freelist::release / free / allocate against a reference model on small grids')],
    level='proof',
    composition='Verus lemmas L2 (contracts/lemmas.vtmpl: lemma_begin_reader, lemma_end_reader, lemma_commit) over an abstract state whose transitions are written with the spec functions of the code contracts; the identification of each transition with the corresponding function postcondition is by reading (same spec fns)',
    units=['txn', 'freelist', 'commit', 'lemmas', 'nodeio', 'open', 'bucketops', 'bucketcommit'],
    explanation='Snapshot protection: Tx::new (X1) is verified on its real body: a writer releases exactly the pending pages of transactions older than '
                'open_ro_txs[0] (the oldest open reader, because the list is kept ascending: lock invariant re-established at every guard release) or, '
                'with no reader, older than itself (F2 is an equality: nothing more, nothing less); a reader gets an unchanged copy of the free list and registers its '
                'snapshot id exactly once; ending a reader (X2, the body of Drop for TxInner) removes exactly one occurrence and keeps the order. '
                'F1/T1: allocation only from the free set or fresh pages; W1(w1): commit writes only allocated pages. L2 (invariant over all interleavings) is the paper composition.',
    level_text='Contracts on the real begin/end/allocate/release/commit code for all states; unbounded numbers of readers, writers and pages.',
    level_note='Single-threaded interleavings only (sequential view of the locks). Assumes A1/A2 of the tree layer. L2 on paper.',
    assumptions=[A_TOOLS, A_ARITH, A_SEQ, A_TREE, A_VIEWS, A_FILE, 'file well-formedness precondition of Tx::new: the free-list page named by the current header lies inside the map (C05 of the state before)'],
    not_covered=['thread interleavings (C04)', 'that the tree layer never frees a page still reachable from an open snapshot (A1)'],
)

PROPS['C06'] = dict(
    bounded_quick=[('history', 'seeded histories with rollbacks and refused calls against a reference map (a refused call and an abandoned transaction leave no trace), on the real crate, on every check'), ('header', 'opening an existing file (also one with a damaged header page), reading it and closing it leaves the file byte-identical')],
    level='proof',
    units=['guards', 'commit', 'txn', 'open', 'bucketops'],
    census='ReadOnlyTx',
    explanation='Uncommitted / failed / read-only work leaves no trace: G1 proves on the real bodies that each of the nine mutators (Bucket::{put, delete, create_bucket, '
                'get_or_create_bucket, delete_bucket}, Tx::{create_bucket, get_or_create_bucket, delete_bucket, commit}) returns ReadOnlyTx on a read-only handle, and that the '
                'first mutable borrow of shared transaction state happens only on a writable handle (anchored assertion in front of it, so a guard placed after the mutation fails); '
                'Tx::get_bucket hands out a handle that is writable iff the transaction is. X1/X2: beginning and ending a transaction append nothing to the file trace; the writer works on a '
                'clone of the free list. W1: the shared free list is replaced only after the header is durable (w7, anchored) and every Err exit precedes the header write except the known finding E2.',
    level_text='Contracts on the real bodies of every mutating entry point and of begin/end/commit, for all inputs.',
    level_note='InnerBucket methods are assumed never to answer ReadOnlyTx (backed by a census of the token in src/, recorded in the evidence). Known finding E2 listed. Opening an existing file (O1) is covered by C15/C16 units when built.',
    assumptions=[A_TOOLS, A_ARITH, A_SEQ, A_FILE, 'RefCell stand-in: sequential view, borrow-flag panics not modelled', 'InnerBucket::* (tree layer) by assumed contract: never returns ReadOnlyTx; frame tree_frame on the TxFreelist'],
    not_covered=['"a call that returns an error changes nothing" is proved for InnerBucket::{delete, put_leaf, delete_bucket, bucket_getter} over an ASSUMED tree interface (search / node materialisation), not for the tree layer below it', 'later commits behaving as if an abandoned transaction never existed is by X1 (fresh clone) + paper argument'],
)

PROPS['C16'] = dict(
    bounded_quick=[('history', 'whole-history behaviour under different open options: the tree layer (split / merge thresholds depend on the page size) is outside the verifier\'s reach; cex/history.rs replays seeded histories under page sizes 1024/1032/3000/4096/16384, 4 or 64 initial pages, strict mode off/on')],
    level='proof',
    units=['open', 'freelist', 'commit', 'split', 'check', 'nodeio'],
    kani_quick=['frombuf'],
    explanation='Open options: for EVERY page size and page count the builder accepts. OpenOptions::pagesize returns only for sizes >= 1024 that are multiples of 8 (the '
                'documented panics are modelled as divergence, so removing a check is a failed postcondition), num_pages only for >= 4; OpenOptions::open calls init_file / DBInner::open '
                'with exactly the alignment precondition that Kani unit K4 derives for the real page cast (and shows necessary: the harness without it fails). init_file writes four pages with the '
                'pinned constants and syncs; T1: page-count arithmetic is the exact ceiling for every page size, no overflow; W1(w5): before any data write the file/map covers '
                'num_pages * pagesize, through any number of 8 MiB growth steps (growth arithmetic proved); resize maps at least the requested size; strict mode: check() sits '
                'between the synced data pages and the header write and its Err is propagated before the header is written (data-phase exit).',
    level_text='Arithmetic, alignment and ordering obligations proved for all configurations on the real code; no enumeration of sizes.',
    level_note='Whole-history equivalence across configurations is not decided (tree layer). mmap_populate reaches only the mmap stub. check() completeness w.r.t. well-formedness is not under contract.',
    assumptions=[A_TOOLS, A_ARITH, A_FILE, A_VIEWS, A_PAGEMUT, A_SEQ, 'OS page sizes are multiples of 8 (Default for OpenOptions)', 'fs4 allocate / memmap2 map: the map covers every allocated byte (prelude/openfile.rs)', A_HASHSET],
    not_covered=['equality of return values and logical contents of whole histories across configurations', 'that strict mode never rejects a valid commit (needs COMPLETENESS of TxInner::check; unit check proves its soundness: Ok only if every page is accounted for exactly once)', 'the VALUE of the split threshold (float arithmetic, stub U22): Node::split is proved for ANY threshold, so no property depends on it'],
)

PROPS['C08'] = dict(
    bounded_quick=[('cursor', 'Node::spill and InnerBucket::merge_nodes / node (an Rc<RefCell<Node>> graph mutated through shared handles: outside both verifiers), the payload bytes Page::write_node copies (bounded Kani codec); Node::split / write / free_page / NodeData::merge, Page::write_node (layout arithmetic, never fails) and InnerBucket::{rebalance, spill, page_node} ARE under contract (units split, nodeio, writenode, bucketcommit, overlay)')],
    level='proof',
    units=['range', 'cursor', 'pagenode', 'filters', 'bytes', 'data', 'txn', 'overlay'],
    explanation='Ranges: Range::next is verified on its real body for a generic R: RangeBounds<&[u8]> (all nine combinations of included / excluded / unbounded) against the '
                'documented Cursor semantics: everything yielded lies within both bounds and is the entry at the cursor; on the first call no entry that satisfies both bounds is '
                'skipped; later calls advance by exactly one entry and yield None only at the end or beyond the upper bound; the cursor stays well-formed. '
                'Cursor::{seek, current, seek_first, advance, on_emptied_leaf, next} and `search` are verified on their real bodies over an abstract tree interface: no panic (no underflow on empty nodes, no unwrap of an empty stack, '
                'no leaf access on a branch), every stack entry indexes into its node, next() after the end is harmless (position unchanged, None again), '
                'current() is total (callable after any sequence of seek/next). Filters (unit filters): the bodies of Iterator::next for KVPairs<I> and Buckets<I>, at I = a stand-in iterator whose remaining output is a ghost sequence, yield the FIRST pair / nested bucket still to come, consume exactly the elements up to it and end only when none is left (rule R14 turns `for x in it.by_ref()` into the loop over it.next()); the "Could not find bucket" panic is proved unreachable on a sound tree. R2-full: with num(stack) := number of entries strictly before the position in the in-order numbering of the tree '
                '(DEFINED recursively over the abstract tree: size/prefix/num in prelude/cursor_order.rs, all lemmas proved), seek and search leave a root-to-leaf path, advance() moves to exactly the next position '
                '(num grows by one iff the old position held an entry) and answers false only when nothing lies after it, and next() yields the entry whose number is next_target (0 on a fresh cursor, '
                'num after a seek, num+1 after a yielded entry) and None only when next_target >= size(root): every entry exactly once, in tree order, none skipped, also across leaves emptied inside the transaction.',
    level_text='Single-step contract of the range iterator proved for every bucket content, every key and every bound; the whole-scan statement follows by induction over calls (paper).',
    level_note='Range::next is RELATIVE to the Cursor contract (prelude/cursor_contract.rs: seek stops at the key or just before where it would be; first next yields the current slot). '
               'The cursor unit proves the traversal against the in-order numbering of an assumed structurally sound tree (branches non-empty, finite height); that tree order IS ascending key order is C05 of the state the cursor runs on (assumed here), '
               'WHERE seek lands: search / seek are proved to sit, at every level, on the slot that level\'s own binary search answers for the key and to report the leaf\'s exact-hit flag; what that slot is (slot-before rule) is proved per node in unit pagenode. Termination of every loop of the cursor is proved (the loop in Cursor::next that skips emptied leaves by a position numbering, prelude/cursor_slots.rs). Byte-string order is an uninterpreted strict total order.',
    assumptions=[A_TOOLS, 'Cursor::{seek,current,next} by assumed contract over an abstract ascending key sequence', 'byte-string comparison is a strict total order (axiom_key_order); rule R10: `a < *b` on &[u8] compares the slices',
                 'the RangeBounds implementation agrees with its vstd specification (true for every std range type and (Bound, Bound))'],
    not_covered=['that a seek lands on the key or an immediate neighbour and that a search finds a key iff it is present are now THEOREMS (prelude/cursor_lookup.rs, checked in unit cursor) over the abstract tree, under the hypotheses slot_rule (the per-node clauses proved on PageNode::index in unit pagenode; identified by name, same real function in two units), bst (the tree read is a search tree: C05 of the state) and keys_canon; the step from "left of the path" to "smaller in-order number" is on paper'],
)

A_TREEIF = 'the tree a cursor walks is an abstract interface (prelude/cursor_tree.rs): branch nodes are never empty, children are strictly lower (finite height), the shape does not change while the cursor walks'
A_ELEMS = 'element headers of mapped pages and their key bytes are stub views of the raw-pointer casts (U17/U18, Leaf/Branch key accessors); layout pinned by K1'

PROPS['C07'] = dict(
    bounded_quick=[('history', 'Node::spill and InnerBucket::merge_nodes / node (an Rc<RefCell<Node>> graph mutated through shared handles: outside both verifiers), the payload bytes Page::write_node copies (bounded Kani codec); Node::split / write / free_page / NodeData::merge, Page::write_node (layout arithmetic, never fails) and InnerBucket::{rebalance, spill, page_node} ARE under contract (units split, nodeio, writenode, bucketcommit, overlay)'), ('cursor', 'Node::spill and InnerBucket::merge_nodes / node (an Rc<RefCell<Node>> graph mutated through shared handles: outside both verifiers), the payload bytes Page::write_node copies (bounded Kani codec); Node::split / write / free_page / NodeData::merge, Page::write_node (layout arithmetic, never fails) and InnerBucket::{rebalance, spill, page_node} ARE under contract (units split, nodeio, writenode, bucketcommit, overlay)')],
    level='other',
    units=['pagenode', 'cursor', 'bucketops', 'range', 'filters', 'overlay', 'data', 'guards', 'markdel'],
    explanation='A write transaction reads a MIXTURE of untouched mapped pages and modified in-memory nodes. Proved on the real bodies, for all node contents: '
                'PageNode::{leaf, len, index_page, index, val} satisfy ONE contract stated over the node view (len, leaf, key(i), child(i)) whichever representation is behind it '
                '(representation independence: the Page and the Node arm answer by the same specification, incl. the binary-search slot-before rule); Node::insert_data / delete are '
                'map insert / remove on an ascending entry sequence (what later reads see is exactly the put/delete applied); the cursor code (seek, current, seek_first, advance, on_emptied_leaf, next, search) never panics '
                'and keeps every stack entry inside its node on any such mixture; and (R2-full) next() yields every entry of the mixture exactly once in tree order, None only when none is left, '
                'in particular across leaves whose entries were all deleted inside the transaction (defect E8, fixed).',
    level_text='Unbounded proofs of the per-node read/write operations, of cursor safety and of in-order completeness of the traversal; NOT a proof that the composed read API equals a model after every operation (the overlay rule and bucket-level operations are assumed / elsewhere).',
    level_note='The overlay rule (InnerBucket::page_node: a page id resolves to the transaction\'s node iff one exists, otherwise to the mapped page) is proved in unit overlay on the REAL InnerBucket struct (one field type replaced by an opaque stand-in, rule U23). The cursor unit still works against its abstract tree interface; identifying the two is by name.',
    assumptions=[A_TOOLS, A_ARITH, A_TREEIF, A_ELEMS, 'RefCell stand-in (sequential view)', 'byte-string order is a strict total order', A_HASHSET],
    not_covered=['that the cursor unit\'s abstract node interface is InnerBucket::page_node (proved in unit overlay on the real struct) is a link by name; InnerBucket::node (materialisation with parent links through shared handles) is not under contract', 'bucket listing and point lookups through InnerBucket::get'],
)

PROPS['C05'] = dict(
    bounded_quick=[('checker', 'stands in for TxInner::check when unit check is undecided (rewritten body): structurally damaged files must be rejected by DB::check()'), ('history', 'Node::spill and InnerBucket::merge_nodes / node (an Rc<RefCell<Node>> graph mutated through shared handles: outside both verifiers), the payload bytes Page::write_node copies (bounded Kani codec); Node::split / write / free_page / NodeData::merge, Page::write_node (layout arithmetic, never fails) and InnerBucket::{rebalance, spill, page_node} ARE under contract (units split, nodeio, writenode, bucketcommit, overlay)')],
    level='proof',
    composition='the accounting part of INV (pending pages below the high-water mark, not free, pending once; live pages not free) is preserved by begin/end reader and commit: Verus lemma L2 (contracts/lemmas.vtmpl) under assumptions A1/A2',
    units=['freelist', 'commit', 'open', 'pagenode', 'lemmas', 'bucketops', 'nodeio', 'split', 'bucketcommit', 'check', 'writenode', 'markdel', 'txn', 'overlay'],
    kani_quick=['layout'],
    kani_thorough=['codec'],
    explanation='Page accounting, allocator and serialisation side (the tree-shape half is outside): the allocator never hands out a page that is pending, already allocated in this transaction or a header page, '
                'and hands out a free run (the code: the lowest) or, only when there is none, fresh pages (F1, T1: pages_wf / below_hwm invariants); freeing appends exactly the run to pending[tx], with exact multiset accounting '
                '(F3, T2: pend_ms); release moves exactly the pending lists below the bound (F2); what is persisted is free + pending, sorted, with exact length (F4) in a freshly allocated free-list page '
                'after the old run was freed, and the header publishes the allocator\'s high-water mark and that page (W1 w6, w8); every page written lies below the high-water mark inside the file (w1, w5); '
                'a new file starts with two valid headers, an empty free-list page and an empty leaf (O1); node entries stay strictly ascending under insert/delete (N1); a node that is rewritten gives its WHOLE old run back to pending[tx] exactly once, forgets it, and names exactly the run the allocator handed out, long enough for its serialised size; a node merged away takes no page (unit nodeio: Node::free_page / allocate / write); a rewritten child REPLACES the parent entry it was filed under and a new sibling is added in key order, nothing else touched (Node::insert_branch), splitting a node cuts its entries exactly at the index (NodeData::split_at); Node::split cuts an over-full node at ascending points into pieces of at least two entries each, '
                'in order, nothing lost or duplicated, for ANY fill threshold, and registers each piece as a fresh node without a page (unit split; the piece lemma lemma_pieces_concat); NodeData::size IS the serialised size '
                '(element headers + payloads: the iterator fold is proved, no longer assumed), so the run Node::write asks for is long enough for what Page::write_node lays out; NodeData::merge leaves the union of both nodes in key order and empties the other; '
                'Page::write_node lays the node out exactly as announced (header: kind and count; element k: child / kind, lengths, pos = element headers still to come + payloads before it; bytes laid out == NodeData::size; it never fails: unit writenode); TxInner::check, the database\'s own consistency check, is SOUND: Ok only if the pages reachable from the root bucket and the free-list page with their runs, plus the ids the free list names, are every page below the high-water mark exactly once, with per-page key order and known kinds, and it terminates without panicking (unit check); InnerBucket::spill rewrites every open child bucket that has changes and stores each such child\'s new header under its name exactly once before writing its own nodes, answers with the new root page and does not touch the insertion counter; rebalance / spill / is_dirty keep the allocator frame (unit bucketcommit); element headers and payloads '
                'round-trip through the real pointer code inside the page run (K2, BOUNDED, thorough tier). Deleting a bucket marks the bucket AND every open bucket below it, at every depth, as deleted, so no handle taken earlier can work on the freed pages (E13, repaired: unit markdel proves InnerBucket::mark_deleted on its real recursive body over the cell model with fin()).',
    level_text='Unbounded proofs of the allocator / free-list / commit-publication obligations on the real code; bounded Kani harnesses (labelled, not counted) for the raw-pointer codec.',
    level_note='The nested-bucket double free named in the property text (E10, repaired) is now a step obligation of InnerBucket::delete_bucket (a nested root queued for freeing is not already freed by this transaction). NOT decided: that Node::spill / merge_nodes (assumed interface of unit bucketcommit) free each page at most once, key order across pages, separator bounds, '
               'reachability-exactly-once, and agreement of TxInner::check (a worklist graph traversal, not under contract). L3 composition on paper; fl_nodup is an assumption.',
    assumptions=[A_TOOLS, A_ARITH, A_TREE, A_FILE, A_PAGEMUT, A_ELEMS, A_SEQ, A_HANDLES, A_SERIAL, A_HASHSET, A_CELLFIN],
    not_covered=['duplicated or leaked pages caused by Node::spill / merge_nodes (bounded: cex/history.rs + the VERIFIED DB::check after every commit; reproductions e9, e11)', 'key order across pages and separator bounds (E11 lived here; bounded only: TxInner::check looks at each page on its own)', 'completeness of TxInner::check (that it accepts every well-formed file); its soundness is proved in unit check'],
)
PROPS['C01'] = dict(
    bounded_quick=[('history', 'Node::spill and InnerBucket::merge_nodes / node (an Rc<RefCell<Node>> graph mutated through shared handles: outside both verifiers), the payload bytes Page::write_node copies (bounded Kani codec); Node::split / write / free_page / NodeData::merge, Page::write_node (layout arithmetic, never fails) and InnerBucket::{rebalance, spill, page_node} ARE under contract (units split, nodeio, writenode, bucketcommit, overlay)'), ('cursor', 'Node::spill and InnerBucket::merge_nodes / node (an Rc<RefCell<Node>> graph mutated through shared handles: outside both verifiers), the payload bytes Page::write_node copies (bounded Kani codec); Node::split / write / free_page / NodeData::merge, Page::write_node (layout arithmetic, never fails) and InnerBucket::{rebalance, spill, page_node} ARE under contract (units split, nodeio, writenode, bucketcommit, overlay)')],
    level='other',
    units=['pagenode', 'cursor', 'range', 'guards', 'bucketops', 'bytes', 'split', 'bucketcommit', 'overlay', 'data', 'writenode', 'markdel', 'commit', 'txn', 'open', 'filters', 'freelist', 'nodeio', 'db', 'meta'],
    kani_quick=['layout'],
    kani_thorough=['codec'],
    explanation='Leaf operations against the mathematical ordered map, for all sizes: Node::insert_data is map insert on a strictly ascending entry sequence (replace on equal key, insert at the sorted position otherwise, '
                'nothing lost or duplicated), Node::delete removes exactly the indexed entry (N1); PageNode::index is the binary search with the documented slot-before rule on both representations (N2); '
                'cursor and range iteration are panic-free / within bounds (R1, R2); a bucket header survives its 16-byte encoding and every element header has the pinned layout (K1, complete); '
                'serialising a node and reading it back through the real pointer code yields the same entries (K2, BOUNDED, thorough tier); the documented-misuse panic on a deleted bucket is the only '
                'precondition of the bucket mutators (G1).',
    level_text='Proved leaf-level operations plus bounded codec; the property\'s quantifier over whole histories is NOT decided.',
    level_note='Per-call clauses are proved for InnerBucket::{get, put, delete, put_leaf, delete_bucket, bucket_getter} over an assumed tree interface (the value or error kind a reference map returns, counters, error-changes-nothing, no panic) and for the key type Bytes (ordered as byte strings). '
               'Node::split, NodeData::merge, InnerBucket::{rebalance, spill, is_dirty, page_node} are under contract since the seventh round (units split, bucketcommit, overlay); Node::spill, merge_nodes, root collapse and InnerBucket::node mutate an Rc<RefCell<Node>> graph through shared handles and are out of reach of both verifiers; the shape-dependent commit panics named in the property text (found as E9, E11, E12 and repaired) are guarded by the bounded oracles and reproductions only.',
    assumptions=[A_TOOLS, A_ARITH, A_TREEIF, A_ELEMS, 'RefCell stand-in', 'byte-string order is a strict total order', A_HANDLES, A_SERIAL],
    not_covered=['deductively: every history-level clause of the statement (commit/reopen equivalence with a reference nested map across transactions); these are exercised only by the BOUNDED history oracle cex/history.rs that runs on every check', 'rebalance / spill / merge / root collapse (InnerBucket::merge_nodes, Node::spill/split): bounded oracles and reproductions e9, e11, e12 only'],
)

PENDING = 'not claimed yet in this build session: deciding units are not built (see DESIGN section 10)'
PROPS['C13'] = dict(
    census='filelock',
    bounded_quick=[('lock', 'that NO other code gives the lock away while a handle is alive (a Drop impl, an explicit unlock, a second file handle) is a frame condition over the whole crate, outside any function contract; cex/lock.rs probes the lock from a second process (python3 flock) along a scripted history of handle clones, transactions and drops')],
    level='other',
    units=['open'],
    explanation='SCOPED to the mechanism inside this code base; the exclusion itself is the operating system\'s. Proved on the real bodies of DBInner::open and OpenOptions::open: '
                'the exclusive advisory lock is requested on the file handle BEFORE the file is mapped or read (obligation at the mmap call), a failed lock request returns Err (no database handle exists without the lock), '
                'and the handle that holds the lock is the very handle stored in DBInner.file, i.e. the lock lives exactly as long as the last clone of the database. Opening an existing file writes nothing before the lock is held '
                '(the trace of the kept handle equals the trace of the handle passed in).',
    level_text='Unbounded proof of the lock-before-use discipline of one opener; NOT a proof of mutual exclusion between processes.',
    level_note='Decides only what one process does. That two lock holders cannot coexist, that a second opener blocks and later sees the first one\'s commits, and every interleaving of processes are properties of flock(2) and of process schedules: outside any contract on this code (assumed: fs4::lock_exclusive returns Ok only with the lock held; the lock is released when the file description closes).',
    assumptions=[A_TOOLS, 'fs4::FileExt::lock_exclusive returns Ok only when the exclusive advisory lock is held (prelude/openfile.rs); the lock belongs to the open file description and is released only when the handle is dropped', 'memmap2/mmap stand-in as in C16'],
    not_covered=['mutual exclusion between processes and blocking behaviour (flock semantics)', 'every interleaving of open / initialise / close of several processes', 'create-if-missing of a not yet existing file happens before the lock (init_file uses create_new, so only one creator succeeds; not under a lock)', 'visibility of the first opener\'s commits to the second (C01/C02 of the reopened file)'],
)

NOT_APPLICABLE = {
    'C04': 'quantifies over thread schedules; Kani has no threads, Verus would need the code rewritten onto its permission types (a model) — DESIGN section 6',
    'C09': 'mutual exclusion/progress/deadlock-freedom are schedule and liveness properties of std::sync primitives; no contract within reach states them — DESIGN section 6',
    'C14': 'quantifies over client programs and is decided by rustc borrow/Send checking of each program, not by contracts on jammdb bodies — DESIGN section 6',
}
for _p in []:
    NOT_APPLICABLE.setdefault(_p, PENDING)
