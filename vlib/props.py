"""Property -> deciding units (DESIGN section 0/6).  Filled in as units are built."""

A_TOOLS = 'tools trusted: Verus 0.2026.09.13 + Z3, rustc 1.98.1 front end, Kani 0.68 + CBMC 6.11, the extractor (provenance hashes + rewrite log in this file)'
A_ARITH = 'machine arithmetic is NOT treated as mathematical: every u64/usize operation is an overflow obligation; usize == u64 (64-bit target)'

PROPS = {}

PROPS['C10'] = dict(
    level='proof',
    units=['freelist'],
    explanation='Freed space is reused: release equality (F2), first-fit completeness of allocate (F1), '
                'extend-only-on-None (T1), persisted list = free + pending (F4), reload (F5).',
    assumptions=[A_TOOLS, A_ARITH],
    not_covered=['the plateau over thousands of transactions is a corollary, not measured'],
)
