"""Property -> deciding units (DESIGN section 0/6).  Filled in as units are built."""

A_TOOLS = 'tools trusted: Verus 0.2026.09.13 + Z3, rustc 1.98.1 front end, Kani 0.68 + CBMC 6.11, the extractor (provenance hashes + rewrite log in this file)'
A_ARITH = 'machine arithmetic is NOT treated as mathematical: every u64/usize operation is an overflow obligation; usize == u64 (64-bit target)'

PROPS = {}

PROPS['C10'] = dict(
    level='proof',
    units=['freelist'],
    explanation='Freed space is reused: release equality (F2), first-fit completeness of allocate (F1), '
                'extend-only-on-None (T1), persisted list = free + pending (F4), reload (F5).',
    assumptions=[A_TOOLS, A_ARITH],
    not_covered=['the plateau over thousands of transactions is a corollary, not measured'],
)

PROPS['C10'].update(
    level_text='Every function of the free-list layer that the property depends on carries a machine-checked contract on its real body, for all inputs, no bound.',
    level_note='Assumes the B-tree layer frees only pages of its own snapshot (A1); std collections per vstd specs; prelude shims listed in evidence.trusted_base.',
)

PENDING = 'not claimed yet in this build session: deciding units are not built (see DESIGN section 10)'
NOT_APPLICABLE = {
    'C04': 'quantifies over thread schedules; Kani has no threads, Verus would need the code rewritten onto its permission types (a model) — DESIGN section 6',
    'C09': 'mutual exclusion/progress/deadlock-freedom are schedule and liveness properties of std::sync primitives; no contract within reach states them — DESIGN section 6',
    'C13': 'quantifies over schedules of OS processes and flock semantics; a sequential contract cannot decide mutual exclusion — DESIGN section 6',
    'C14': 'quantifies over client programs and is decided by rustc borrow/Send checking of each program, not by contracts on jammdb bodies — DESIGN section 6',
}
for _p in ['C01', 'C02', 'C03', 'C05', 'C06', 'C07', 'C08', 'C11', 'C12', 'C15', 'C16']:
    NOT_APPLICABLE.setdefault(_p, PENDING)
