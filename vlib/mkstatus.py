"""Regenerates the table of DESIGN.md section 11.13 from vlib/props.py (run after changing props.py)."""
import os, re, sys
sys.path.insert(0, os.path.dirname(os.path.abspath(__file__)))
from props import PROPS

VERIF = os.path.dirname(os.path.dirname(os.path.abspath(__file__)))
rows = ['| id | level | Verus units (all obligations must be discharged) | bounded stand-ins run in the quick tier | Kani quick / thorough | NOT decided (from `vlib/props.py`) |',
        '|---|---|---|---|---|---|']
for pid in sorted(PROPS):
    P = PROPS[pid]
    rows.append('| %s | %s | %s | %s | %s / %s | %s |' % (
        pid, P['level'], ', '.join(P['units']), ', '.join(g for g, _ in P.get('bounded_quick', [])) or '–',
        ', '.join(P.get('kani_quick', [])) or '–', ', '.join(P.get('kani_thorough', [])) or '–',
        '; '.join(P.get('not_covered', [])).replace('|', '\\|')))
p = os.path.join(VERIF, 'DESIGN.md')
s = open(p).read()
m = re.search(r'(### 11\.13[^\n]*\n\n)(\| id \|.*?\n)(\n)', s, re.S)
s = s[:m.start(2)] + '\n'.join(rows) + '\n' + s[m.end(2):]
open(p, 'w').write(s)
print('DESIGN.md 11.13: %d rows' % (len(rows) - 2))
