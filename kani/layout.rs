//@append src/page.rs
//@harness k1_page_layout complete
//@harness k1_meta_layout complete
//@harness k1_old_meta_layout complete
//@harness k1_element_layout complete
//@harness k1_bucket_meta_codec complete
//@harness k1_constants complete
//@harness k1_element_slices bounded bound="every header content whose element / id slice fits the 128-byte harness buffer (count <= 3 leaf, 4 branch, 12 free-list entries)"
//@harness k1_payload_addressing bounded bound="every element header whose key and value lie inside the 128-byte harness buffer"
//@trusted layout pins hold for the Kani build target (x86_64, little-endian); other targets are assumed to agree because every struct is #[repr(C)]
#[cfg(kani)]
mod verif_kani_layout {
    use super::*;
    use crate::bucket::BucketMeta;
    use std::mem::{align_of, size_of};

    #[repr(C, align(8))]
    struct Buf([u8; 128]);

    fn le64(b: &[u8; 128], o: usize) -> u64 {
        u64::from_le_bytes([b[o], b[o + 1], b[o + 2], b[o + 3], b[o + 4], b[o + 5], b[o + 6], b[o + 7]])
    }
    fn le32(b: &[u8; 128], o: usize) -> u32 {
        u32::from_le_bytes([b[o], b[o + 1], b[o + 2], b[o + 3]])
    }

    // Page header: id@0 page_type@8 count@16 overflow@24, data area starts at 32, header struct is 40 bytes
    #[kani::proof]
    fn k1_page_layout() {
        let buf = Buf(kani::any());
        kani::cover!(true);
        let p = Page::from_buf(&buf.0, 0, 128);
        assert!(size_of::<Page>() == 40);
        assert!(align_of::<Page>() == 8);
        assert!(p.id == le64(&buf.0, 0));
        assert!(p.page_type as u64 == buf.0[8] as u64);
        assert!(p.count == le64(&buf.0, 16));
        assert!(p.overflow == le64(&buf.0, 24));
        assert!(p.ptr == le64(&buf.0, 32));
        assert!((&p.ptr as *const u64 as usize) - (p as *const Page as usize) == 32);
    }

    // current header record at page offset 32
    #[kani::proof]
    fn k1_meta_layout() {
        let mut buf = Buf(kani::any());
        buf.0[8] = Page::TYPE_META;
        kani::cover!(true);
        let p = Page::from_buf(&buf.0, 0, 128);
        let m = p.meta();
        assert!(size_of::<Meta>() == 72);
        assert!((m as *const Meta as usize) - (p as *const Page as usize) == 32);
        assert!(m.meta_page == le32(&buf.0, 32));
        assert!(m.magic == le32(&buf.0, 36));
        assert!(m.version == le32(&buf.0, 40));
        assert!(m.pagesize == le64(&buf.0, 48));
        assert!(m.root.root_page == le64(&buf.0, 56));
        assert!(m.root.next_int == le64(&buf.0, 64));
        assert!(m.num_pages == le64(&buf.0, 72));
        assert!(m.freelist_page == le64(&buf.0, 80));
        assert!(m.tx_id == le64(&buf.0, 88));
        assert!(m.hash == le64(&buf.0, 96));
    }

    // legacy (<= 0.10) header record: same prefix, 32-byte hash at record offset 64
    #[kani::proof]
    fn k1_old_meta_layout() {
        let mut buf = Buf(kani::any());
        buf.0[8] = Page::TYPE_META;
        kani::cover!(true);
        let p = Page::from_buf(&buf.0, 0, 128);
        let m = p.old_meta();
        assert!(size_of::<OldMeta>() == 96);
        assert!((m as *const OldMeta as usize) - (p as *const Page as usize) == 32);
        assert!(m.meta_page == le32(&buf.0, 32));
        assert!(m.magic == le32(&buf.0, 36));
        assert!(m.version == le32(&buf.0, 40));
        assert!(m.pagesize == le64(&buf.0, 48));
        assert!(m.root.root_page == le64(&buf.0, 56));
        assert!(m.root.next_int == le64(&buf.0, 64));
        assert!(m.num_pages == le64(&buf.0, 72));
        assert!(m.freelist_page == le64(&buf.0, 80));
        assert!(m.tx_id == le64(&buf.0, 88));
        let i: usize = kani::any();
        kani::assume(i < 32);
        assert!(m.hash[i] == buf.0[96 + i]);
    }

    // element headers: leaf = {node_type@0 pos@8 key_size@16 value_size@24} (32 bytes),
    // branch = {page@0 key_size@8 pos@16} (24 bytes)
    #[kani::proof]
    fn k1_element_layout() {
        let mut buf = Buf(kani::any());
        kani::cover!(true);
        assert!(size_of::<LeafElement>() == 32);
        assert!(size_of::<BranchElement>() == 24);
        buf.0[8] = Page::TYPE_LEAF;
        buf.0[16..24].copy_from_slice(&1u64.to_le_bytes());
        {
            let p = Page::from_buf(&buf.0, 0, 128);
            let l = &p.leaf_elements()[0];
            assert!((l as *const LeafElement as usize) - (p as *const Page as usize) == 32);
            assert!(l.node_type as u64 == buf.0[32] as u64);      // (casts: a widened tag type must fail this assertion, not the compilation)
            assert!(l.pos == le64(&buf.0, 40));
            assert!(l.key_size == le64(&buf.0, 48));
            assert!(l.value_size == le64(&buf.0, 56));
        }
        buf.0[8] = Page::TYPE_BRANCH;
        {
            let p = Page::from_buf(&buf.0, 0, 128);
            let b = &p.branch_elements()[0];
            assert!((b as *const BranchElement as usize) - (p as *const Page as usize) == 32);
            assert!(b.page == le64(&buf.0, 32));
            assert!(b.key_size == le64(&buf.0, 40));
            assert!(b.pos == le64(&buf.0, 48));
        }
    }

    // a bucket header is its two u64 fields as 16 little-endian bytes, both ways
    #[kani::proof]
    fn k1_bucket_meta_codec() {
        let m = BucketMeta { root_page: kani::any(), next_int: kani::any() };
        kani::cover!(true);
        assert!(size_of::<BucketMeta>() == 16);
        let bytes: &[u8] = m.as_ref();
        assert!(bytes.len() == 16);
        let mut rp = [0u8; 8];
        rp.copy_from_slice(&bytes[0..8]);
        let mut ni = [0u8; 8];
        ni.copy_from_slice(&bytes[8..16]);
        assert!(u64::from_le_bytes(rp) == m.root_page);
        assert!(u64::from_le_bytes(ni) == m.next_int);
        let raw: [u8; 16] = kani::any();
        let back: BucketMeta = (&raw[..]).into();
        let mut a = [0u8; 8];
        a.copy_from_slice(&raw[0..8]);
        let mut b = [0u8; 8];
        b.copy_from_slice(&raw[8..16]);
        assert!(back.root_page == u64::from_le_bytes(a));
        assert!(back.next_int == u64::from_le_bytes(b));
    }

    #[kani::proof]
    fn k1_constants() {
        kani::cover!(true);
        assert!(Page::TYPE_BRANCH == 1 && Page::TYPE_LEAF == 2 && Page::TYPE_META == 3 && Page::TYPE_FREELIST == 4);
        assert!(Node::TYPE_DATA == 0 && Node::TYPE_BUCKET == 1);
    }

    // the element / free-list slices of a page: `count` entries starting right behind the 32-byte header prefix (pins the
    // stubs U14 / U17 / U18 of the Verus units: length == count, fixed start).  Kani checks the validity of the whole slice,
    // so `count` is limited to what the harness buffer holds: BOUNDED
    #[kani::proof]
    fn k1_element_slices() {
        let mut buf = Buf(kani::any());
        let ty: u8 = kani::any();
        kani::assume(ty == Page::TYPE_LEAF || ty == Page::TYPE_BRANCH || ty == Page::TYPE_FREELIST);
        buf.0[8] = ty;
        let cnt: u64 = kani::any();
        kani::assume(cnt <= if ty == Page::TYPE_LEAF { 3 } else if ty == Page::TYPE_BRANCH { 4 } else { 12 });
        buf.0[16..24].copy_from_slice(&cnt.to_le_bytes());
        let p = Page::from_buf(&buf.0, 0, 128);
        kani::cover!(true);
        let base = p as *const Page as usize;
        if ty == Page::TYPE_LEAF {
            let s = p.leaf_elements();
            assert!(s.len() as u64 == p.count && p.count == cnt);
            assert!(s.as_ptr() as usize == base + 32);
        } else if ty == Page::TYPE_BRANCH {
            let s = p.branch_elements();
            assert!(s.len() as u64 == p.count && p.count == cnt);
            assert!(s.as_ptr() as usize == base + 32);
        } else {
            let s = p.freelist();
            assert!(s.len() as u64 == p.count && p.count == cnt);
            assert!(s.as_ptr() as usize == base + 32);
        }
    }

    // where an element's key and value lie: `pos` bytes behind the element header itself, value right behind the key, with the
    // recorded lengths (pins the stubs LeafElement::key / value and BranchElement::key: functions of the element header).
    // The element is the first one of a leaf / branch page in the harness buffer: BOUNDED by the buffer
    #[kani::proof]
    fn k1_payload_addressing() {
        let mut buf = Buf(kani::any());
        let leaf: bool = kani::any();
        buf.0[8] = if leaf { Page::TYPE_LEAF } else { Page::TYPE_BRANCH };
        buf.0[16..24].copy_from_slice(&1u64.to_le_bytes());
        let p = Page::from_buf(&buf.0, 0, 128);
        kani::cover!(true);
        if leaf {
            let l = &p.leaf_elements()[0];
            kani::assume(l.pos <= 96 && l.key_size <= 96 && l.value_size <= 96 && l.pos + l.key_size + l.value_size <= 96);
            let base = l as *const LeafElement as usize;
            let k = l.key();
            assert!(k.len() as u64 == l.key_size);
            assert!(k.as_ptr() as usize == base + l.pos as usize);
            let v = l.value();
            assert!(v.len() as u64 == l.value_size);
            assert!(v.as_ptr() as usize == base + (l.pos + l.key_size) as usize);
            if l.key_size > 0 { let i: usize = kani::any(); kani::assume((i as u64) < l.key_size); assert!(k[i] == buf.0[32 + l.pos as usize + i]); }
            if l.value_size > 0 { let i: usize = kani::any(); kani::assume((i as u64) < l.value_size); assert!(v[i] == buf.0[32 + (l.pos + l.key_size) as usize + i]); }
        } else {
            let b = &p.branch_elements()[0];
            kani::assume(b.pos <= 96 && b.key_size <= 96 && b.pos + b.key_size <= 96);
            let bb = b as *const BranchElement as usize;
            let bk = b.key();
            assert!(bk.len() as u64 == b.key_size);
            assert!(bk.as_ptr() as usize == bb + b.pos as usize);
            if b.key_size > 0 { let i: usize = kani::any(); kani::assume((i as u64) < b.key_size); assert!(bk[i] == buf.0[32 + b.pos as usize + i]); }
        }
    }
}
