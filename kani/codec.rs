//@append src/node.rs
//@harness k2_leaf_roundtrip bounded bound="leaf node, 1 key/value entry, key 1 byte, value 1 byte, contents fully symbolic; page run of 256 bytes; unwind 3" timeout=1500
//@harness k2_branch_roundtrip bounded bound="branch node, 1 entry, key 1 byte, content and child page id fully symbolic; page run of 256 bytes; unwind 3" timeout=1500
//@trusted K2 is BOUNDED (never counted as proved): element counts and key/value lengths are fixed small constants
#[cfg(kani)]
mod verif_kani_codec {
    use super::*;
    use crate::page::Page;

    #[repr(C, align(8))]
    struct Buf([u8; 256]);

    // serialise a leaf with Page::write_node, read it back with Node::from_page: same entries, inside the page run
    #[kani::proof]
    #[kani::unwind(3)]
    fn k2_leaf_roundtrip() {
        let k1: [u8; 1] = kani::any();
        let v1: [u8; 1] = kani::any();
        let mut leaves = Vec::with_capacity(1);
        leaves.push(Leaf::Kv(Bytes::Slice(&k1), Bytes::Slice(&v1)));
        let mut n = Node::with_data(7, NodeData::Leaves(leaves), 256);
        n.page_id = 5;
        let mut buf = Buf([0u8; 256]);
        let page: &mut Page = unsafe { &mut *(buf.0.as_mut_ptr() as *mut Page) };
        page.id = 5;
        page.overflow = 0;
        kani::cover!(true);
        page.write_node(&n, 1).unwrap();
        assert!(page.page_type == Page::TYPE_LEAF && page.count == 1);
        // every element lies inside the 256-byte run (CBMC pointer checks) and reads back identically
        let back = Node::from_page(9, page, 256);
        match &back.data {
            NodeData::Leaves(l) => {
                assert!(l.len() == 1);
                assert!(l[0].key() == &k1[..] && l[0].value() == &v1[..] && l[0].node_type() == Node::TYPE_DATA);
            }
            _ => assert!(false),
        }
        assert!(back.page_id == 5 && back.num_pages == 1);
        std::mem::forget(back);
        std::mem::forget(n);
    }

    #[kani::proof]
    #[kani::unwind(3)]
    fn k2_branch_roundtrip() {
        let k1: [u8; 1] = kani::any();
        let p1: u64 = kani::any();
        kani::assume(p1 > 1);
        let mut branches = Vec::with_capacity(1);
        branches.push(Branch { key: Bytes::Slice(&k1), page: p1 });
        let mut n = Node::with_data(7, NodeData::Branches(branches), 256);
        n.page_id = 6;
        let mut buf = Buf([0u8; 256]);
        let page: &mut Page = unsafe { &mut *(buf.0.as_mut_ptr() as *mut Page) };
        page.id = 6;
        page.overflow = 0;
        kani::cover!(true);
        page.write_node(&n, 1).unwrap();
        assert!(page.page_type == Page::TYPE_BRANCH && page.count == 1);
        let back = Node::from_page(9, page, 256);
        match &back.data {
            NodeData::Branches(b) => {
                assert!(b.len() == 1);
                assert!(b[0].key() == &k1[..] && b[0].page == p1);
            }
            _ => assert!(false),
        }
        std::mem::forget(back);
        std::mem::forget(n);
    }
}
