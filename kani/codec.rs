//@append src/node.rs
//@harness k2_leaf_roundtrip bounded bound="leaf node, 2 entries (one key/value, one nested-bucket header), keys 2 bytes, value 3 bytes, contents fully symbolic; page run of 256 bytes" timeout=900
//@harness k2_branch_roundtrip bounded bound="branch node, 2 entries, keys 2 and 3 bytes, contents and child page ids fully symbolic; page run of 256 bytes" timeout=900
//@trusted K2 is BOUNDED (never counted as proved): element counts and key/value lengths are fixed small constants
#[cfg(kani)]
mod verif_kani_codec {
    use super::*;
    use crate::page::Page;

    #[repr(C, align(8))]
    struct Buf([u8; 256]);

    // serialise a leaf with Page::write_node, read it back with Node::from_page: same entries, inside the page run
    #[kani::proof]
    #[kani::unwind(6)]
    fn k2_leaf_roundtrip() {
        let k1: [u8; 2] = kani::any();
        let v1: [u8; 3] = kani::any();
        let k2: [u8; 2] = kani::any();
        let bm = BucketMeta { root_page: kani::any(), next_int: kani::any() };
        let leaves = vec![
            Leaf::Kv(Bytes::Slice(&k1), Bytes::Slice(&v1)),
            Leaf::Bucket(Bytes::Slice(&k2), bm),
        ];
        let mut n = Node::with_data(7, NodeData::Leaves(leaves), 256);
        n.page_id = 5;
        let mut buf = Buf([0u8; 256]);
        let page: &mut Page = unsafe { &mut *(buf.0.as_mut_ptr() as *mut Page) };
        page.id = 5;
        page.overflow = 0;
        kani::cover!(true);
        page.write_node(&n, 1).unwrap();
        assert!(page.page_type == Page::TYPE_LEAF && page.count == 2);
        // every element lies inside the 256-byte run (CBMC pointer checks) and reads back identically
        let back = Node::from_page(9, page, 256);
        match &back.data {
            NodeData::Leaves(l) => {
                assert!(l.len() == 2);
                assert!(l[0].key() == &k1[..] && l[0].value() == &v1[..] && l[0].node_type() == Node::TYPE_DATA);
                assert!(l[1].key() == &k2[..] && l[1].node_type() == Node::TYPE_BUCKET);
                let m: BucketMeta = l[1].value().into();
                assert!(m.root_page == bm.root_page && m.next_int == bm.next_int);
            }
            _ => assert!(false),
        }
        assert!(back.page_id == 5 && back.num_pages == 1);
        std::mem::forget(back);
        std::mem::forget(n);
    }

    #[kani::proof]
    #[kani::unwind(6)]
    fn k2_branch_roundtrip() {
        let k1: [u8; 2] = kani::any();
        let k2: [u8; 3] = kani::any();
        let p1: u64 = kani::any();
        let p2: u64 = kani::any();
        kani::assume(p1 > 1 && p2 > 1);
        let branches = vec![
            Branch { key: Bytes::Slice(&k1), page: p1 },
            Branch { key: Bytes::Slice(&k2), page: p2 },
        ];
        let mut n = Node::with_data(7, NodeData::Branches(branches), 256);
        n.page_id = 6;
        let mut buf = Buf([0u8; 256]);
        let page: &mut Page = unsafe { &mut *(buf.0.as_mut_ptr() as *mut Page) };
        page.id = 6;
        page.overflow = 0;
        kani::cover!(true);
        page.write_node(&n, 1).unwrap();
        assert!(page.page_type == Page::TYPE_BRANCH && page.count == 2);
        let back = Node::from_page(9, page, 256);
        match &back.data {
            NodeData::Branches(b) => {
                assert!(b.len() == 2);
                assert!(b[0].key() == &k1[..] && b[0].page == p1);
                assert!(b[1].key() == &k2[..] && b[1].page == p2);
            }
            _ => assert!(false),
        }
        std::mem::forget(back);
        std::mem::forget(n);
    }
}
