//@append src/page.rs
//@harness k4_from_buf_contract complete
//@harness k4_from_buf_needs_alignment complete expect=fail
//@harness k4_from_buf_needs_bounds complete expect=fail
//@trusted K4 is checked on a 256-byte buffer; the cast does not depend on the buffer length beyond the bounds check
#[cfg(kani)]
mod verif_kani_frombuf {
    use super::*;

    #[repr(C, align(8))]
    struct Buf([u8; 256]);

    // the precondition the Verus stub `page_at` (prelude/mmap.rs) assumes for the real cast:
    //   (id * pagesize) % 8 == 0  &&  id * pagesize + 40 <= buf.len()
    // under it every pointer check (alignment, bounds) of Page::from_buf and of reading the header passes
    #[kani::proof]
    fn k4_from_buf_contract() {
        let buf = Buf(kani::any());
        let id: u64 = kani::any();
        let ps: u64 = kani::any();
        let off = id.checked_mul(ps);
        kani::assume(off.is_some());
        let off = off.unwrap();
        kani::assume(off % 8 == 0 && off <= 256 - 40);
        kani::cover!(off == 216);
        let p = Page::from_buf(&buf.0, id, ps);
        let _ = (p.id, p.page_type, p.count, p.overflow, p.ptr);
        assert!((p as *const Page as usize) - (buf.0.as_ptr() as usize) == off as usize);
    }

    // without the alignment clause the same harness must FAIL (misaligned pointer dereference)
    #[kani::proof]
    fn k4_from_buf_needs_alignment() {
        let buf = Buf(kani::any());
        let id: u64 = kani::any();
        let ps: u64 = kani::any();
        let off = id.checked_mul(ps);
        kani::assume(off.is_some());
        kani::assume(off.unwrap() <= 256 - 40);
        let p = Page::from_buf(&buf.0, id, ps);
        let _ = (p.id, p.page_type, p.count, p.overflow, p.ptr);
    }

    // without the bounds clause it must FAIL as well
    #[kani::proof]
    fn k4_from_buf_needs_bounds() {
        let buf = Buf(kani::any());
        let id: u64 = kani::any();
        let ps: u64 = kani::any();
        let off = id.checked_mul(ps);
        kani::assume(off.is_some());
        kani::assume(off.unwrap() % 8 == 0 && off.unwrap() < 256);
        let p = Page::from_buf(&buf.0, id, ps);
        let _ = (p.id, p.page_type, p.count, p.overflow, p.ptr);
    }
}
