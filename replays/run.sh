#!/bin/sh
# usage: replays/run.sh [test-name-filter] [repo-dir]
# Copies the repository to a scratch directory, adds repro.rs as an integration test, runs it with the
# I/O shim preloaded, and removes the scratch copy.
set -e
HERE="$(cd "$(dirname "$0")" && pwd)"
FILTER="${1:-}"
REPO="${2:-/repo}"
S="$(mktemp -d /tmp/jammdb-verif-replay-XXXXXX)"
trap 'rm -rf "$S"' EXIT
cp "$REPO/Cargo.toml" "$REPO/Cargo.lock" "$S/"
cp -r "$REPO/src" "$S/src"
mkdir -p "$S/tests"
cp "$HERE/repro.rs" "$S/tests/repro.rs"
clang -shared -fPIC -O1 -o "$S/ioshim.so" "$HERE/ioshim.c" -ldl
cd "$S"
export CARGO_NET_OFFLINE=true CARGO_TARGET_DIR="${VERIF_REPLAY_TARGET:-/verif/.cache/replay-target}"
cargo test --offline --test repro --no-run 2>&1 | tail -3
: > "$S/io.log"; echo -1 > "$S/io.ctl"
IOSHIM_LOG="$S/io.log" IOSHIM_CTL="$S/io.ctl" IOSHIM_MATCH=".verifdb" LD_PRELOAD="$S/ioshim.so" \
    cargo test --offline --test repro -- --test-threads 1 $FILTER 2>&1 | grep -v "^$" | tail -40
