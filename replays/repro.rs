// Reproductions of the defects E1-E6 (DESIGN section 7) against the real crate, public API + file bytes only.
// Run through /verif/replays/run.sh (E1/E2 need the LD_PRELOAD shim ioshim.c).
use jammdb::{Data, OpenOptions, DB};
use std::collections::BTreeMap;
use std::ops::Bound;
use std::path::PathBuf;

fn tmp(name: &str) -> PathBuf {
    let p = std::env::temp_dir().join(format!("jammdb-repro-{}-{}.verifdb", name, std::process::id()));
    let _ = std::fs::remove_file(&p);
    p
}

fn contents(db: &DB) -> BTreeMap<Vec<u8>, Vec<u8>> {
    let tx = db.tx(false).unwrap();
    let mut m = BTreeMap::new();
    if let Ok(b) = tx.get_bucket("b") {
        for d in b.cursor() {
            if let Data::KeyValue(kv) = d {
                m.insert(kv.key().to_vec(), kv.value().to_vec());
            }
        }
    }
    m
}

fn commit_keys(db: &DB, from: u32, to: u32, vlen: usize) -> jammdb::Error {
    match try_commit_keys(db, from, to, vlen) {
        Ok(()) => panic!("expected an error"),
        Err(e) => e,
    }
}
fn try_commit_keys(db: &DB, from: u32, to: u32, vlen: usize) -> Result<(), jammdb::Error> {
    let tx = db.tx(true)?;
    {
        let b = tx.get_or_create_bucket("b")?;
        for i in from..to {
            b.put(format!("key{:05}", i), vec![(i % 251) as u8; vlen])?;
        }
    }
    tx.commit()
}

fn log_lines() -> Vec<String> {
    let p = std::env::var("IOSHIM_LOG").expect("run through run.sh: IOSHIM_LOG not set");
    std::fs::read_to_string(p).unwrap_or_default().lines().map(|s| s.to_string()).collect()
}

// E1 (C02): power loss may persist any subset of the writes issued since the last completed sync.
// The image "everything up to the last sync + only the header write of the commit" must reopen as the
// old or the new state.
#[test]
fn e1_header_durable_before_data() {
    const PS: u64 = 1024;
    let p = tmp("e1");
    let db = OpenOptions::new().pagesize(PS).open(&p).unwrap();
    try_commit_keys(&db, 0, 20, 100).unwrap();
    let before = contents(&db);
    let old = std::fs::read(&p).unwrap();
    let mark = log_lines().len();
    try_commit_keys(&db, 20, 60, 300).unwrap();
    let after = contents(&db);
    drop(db);
    let new = std::fs::read(&p).unwrap();
    let log: Vec<String> = log_lines()[mark..].to_vec();
    assert!(!log.is_empty(), "I/O shim not loaded (LD_PRELOAD)");
    // parse: writes and syncs of the second commit
    #[derive(Debug)]
    enum Ev { W(u64, u64), S }
    let evs: Vec<Ev> = log.iter().filter_map(|l| {
        let f: Vec<&str> = l.split_whitespace().collect();
        match f[0] { "W" => Some(Ev::W(f[2].parse().unwrap(), f[3].parse().unwrap())), "S" if f[2] == "0" => Some(Ev::S), _ => None }
    }).collect();
    let hdr = evs.iter().position(|e| matches!(e, Ev::W(off, len) if (*off == 0 || *off == PS) && *len == PS))
        .expect("no header write seen");
    let last_sync_before_hdr = evs[..hdr].iter().rposition(|e| matches!(e, Ev::S));
    // crash image: old file (zero-extended), all writes before that sync, and the header write alone
    let mut img = old.clone();
    img.resize(new.len(), 0);
    let mut apply = |e: &Ev| if let Ev::W(off, len) = e { let (a, b) = (*off as usize, (*off + *len) as usize); img[a..b].copy_from_slice(&new[a..b]); };
    if let Some(s) = last_sync_before_hdr { for e in &evs[..s] { apply(e); } }
    apply(&evs[hdr]);
    let unsynced_data = evs[last_sync_before_hdr.map(|s| s + 1).unwrap_or(0)..hdr].iter().filter(|e| matches!(e, Ev::W(..))).count();
    let ip = tmp("e1-image");
    std::fs::write(&ip, &img).unwrap();
    let res = std::panic::catch_unwind(|| {
        let db = OpenOptions::new().pagesize(PS).open(&ip).unwrap();
        db.check().expect("crash image is not structurally sound");
        contents(&db)
    });
    let _ = std::fs::remove_file(&ip);
    let _ = std::fs::remove_file(&p);
    match res {
        Ok(c) => assert!(c == before || c == after, "crash image shows a mix ({} un-synced data writes before the header write)", unsynced_data),
        Err(_) => panic!("reopening the crash image panicked: header durable before {} un-synced data page writes", unsynced_data),
    }
}

// E2 (C11): the final sync of a commit fails; the handle must stay usable and consistent.
#[test]
fn e2_sync_failure_after_header_write() {
    let p = tmp("e2");
    let ctl = std::env::var("IOSHIM_CTL").expect("run through run.sh");
    let db = OpenOptions::new().pagesize(1024).open(&p).unwrap();
    try_commit_keys(&db, 0, 10, 50).unwrap();
    let syncs = |l: &Vec<String>| l.iter().filter(|s| s.starts_with("S ")).count();
    let n0 = syncs(&log_lines());
    try_commit_keys(&db, 10, 20, 50).unwrap();
    let n1 = syncs(&log_lines());
    let per_commit = n1 - n0;
    assert!(per_commit >= 1, "I/O shim not loaded (LD_PRELOAD)");
    let before = contents(&db);
    std::fs::write(&ctl, format!("{}", n1 + per_commit)).unwrap();      // fail the LAST sync of the next commit
    let e = commit_keys(&db, 20, 30, 50);
    assert!(matches!(e, jammdb::Error::Io(_)), "commit must report the I/O error, got {:?}", e);
    std::fs::write(&ctl, "-1").unwrap();
    let now = contents(&db);
    let mut after = before.clone();
    for i in 20..30u32 { after.insert(format!("key{:05}", i).into_bytes(), vec![(i % 251) as u8; 50]); }
    assert!(now == before || now == after, "state after the failed commit is neither pre nor post");
    for r in 0..5u32 {
        try_commit_keys(&db, 100 + r * 10, 110 + r * 10, 50).expect("later commits must succeed");
        db.check().expect("database inconsistent after a commit that reported an I/O error");
    }
    let _ = std::fs::remove_file(&p);
}

// E3 (C12): damage to the page_type byte of one header page must fall back to the other header.
#[test]
fn e3_header_page_type_damage() {
    for slot in 0..2usize {
        let p = tmp("e3");
        {
            let db = OpenOptions::new().pagesize(1024).open(&p).unwrap();
            try_commit_keys(&db, 0, 5, 10).unwrap();     // tx 1 -> header slot 0
            try_commit_keys(&db, 5, 10, 10).unwrap();    // tx 2 -> header slot 1
        }
        let mut bytes = std::fs::read(&p).unwrap();
        bytes[slot * 1024 + 8] ^= 0x5a;
        std::fs::write(&p, &bytes).unwrap();
        let db = OpenOptions::new().pagesize(1024).open(&p).expect("open must succeed with one intact header");
        let n = contents(&db).len();
        assert_eq!(n, if slot == 0 { 10 } else { 5 }, "wrong snapshot after damaging header slot {}", slot);
        let _ = std::fs::remove_file(&p);
    }
}

// E4 (C16): a page size the page views cannot be aligned to must be refused cleanly by the builder.
#[test]
fn e4_unaligned_pagesize() {
    let r = std::panic::catch_unwind(|| OpenOptions::new().pagesize(1029));
    if r.is_ok() {
        // not refused: opening must then work (it does not: misaligned &Page, aborts in debug builds)
        let p = tmp("e4");
        let db = OpenOptions::new().pagesize(1029).open(&p).unwrap();
        try_commit_keys(&db, 0, 5, 10).unwrap();
        let _ = std::fs::remove_file(&p);
    }
}

// E5 (C08): an excluded start bound must not yield the start key.
#[test]
fn e5_range_excluded_start() {
    let p = tmp("e5");
    let db = OpenOptions::new().pagesize(1024).open(&p).unwrap();
    let tx = db.tx(true).unwrap();
    let b = tx.create_bucket("b").unwrap();
    for k in ["a", "b", "c"] { b.put(k, "v").unwrap(); }
    let got: Vec<Vec<u8>> = b.range::<(Bound<&[u8]>, Bound<&[u8]>)>((Bound::Excluded(b"a".as_slice()), Bound::Unbounded))
        .map(|d| d.key().to_vec()).collect();
    let _ = std::fs::remove_file(&p);
    assert_eq!(got, vec![b"b".to_vec(), b"c".to_vec()]);
}

// E6 (C08): calling next() again after the end of an empty bucket is harmless.
#[test]
fn e6_next_after_end_of_empty_bucket() {
    let p = tmp("e6");
    let db = OpenOptions::new().pagesize(1024).open(&p).unwrap();
    let tx = db.tx(true).unwrap();
    let b = tx.create_bucket("b").unwrap();
    let mut c = b.cursor();
    assert!(c.next().is_none());
    assert!(c.next().is_none());
    assert!(c.next().is_none());
    let _ = std::fs::remove_file(&p);
}

// E7 (C01/C08, observation): after a cursor has run past the end of a multi-level bucket it rests on a branch node;
// Cursor::current() then reads it as a leaf.
#[test]
fn e7_current_after_end_of_multilevel_bucket() {
    let p = tmp("e7");
    let db = OpenOptions::new().pagesize(1024).open(&p).unwrap();
    try_commit_keys(&db, 0, 400, 20).unwrap();
    let tx = db.tx(false).unwrap();
    let b = tx.get_bucket("b").unwrap();
    let mut c = b.cursor();
    let mut n = 0;
    while c.next().is_some() { n += 1; }
    assert_eq!(n, 400);
    assert!(c.next().is_none());
    let cur = c.current();          // must not panic; None or the last entry are both acceptable
    let _ = cur;
    let _ = std::fs::remove_file(&p);
}

// E8 (C07/C08): inside a write transaction, deleting every entry of one leaf must not truncate scans.
#[test]
fn e8_scan_past_a_leaf_emptied_in_this_transaction() {
    let p = tmp("e8");
    let db = OpenOptions::new().pagesize(1024).open(&p).unwrap();
    {
        let tx = db.tx(true).unwrap();
        let b = tx.create_bucket("b").unwrap();
        for i in 0..40u32 { b.put(format!("k{:04}", i), vec![b'v'; 400]).unwrap(); }      // two entries per leaf
        tx.commit().unwrap();
    }
    let tx = db.tx(true).unwrap();
    let b = tx.get_bucket("b").unwrap();
    for i in 10..14u32 { b.delete(format!("k{:04}", i)).unwrap(); }                         // empties two whole leaves
    let scan = b.cursor().count();
    let from8 = b.range::<std::ops::RangeFrom<&[u8]>>(b"k0008".as_ref()..).count();
    let _ = std::fs::remove_file(&p);
    assert_eq!(scan, 36, "full scan inside the transaction");
    assert_eq!(from8, 28, "range scan from k0008 inside the transaction");
}

// E9 (C01): a transaction that empties whole subtrees of a three-level bucket must commit without panicking.
#[test]
fn e9_commit_after_emptying_an_only_child() {
    fn key(i: u32) -> Vec<u8> { let mut k = format!("k{:05}", i).into_bytes(); while k.len() < 200 { k.push(b'_'); } k }
    let p = tmp("e9");
    let db = OpenOptions::new().pagesize(1024).open(&p).unwrap();
    {
        let tx = db.tx(true).unwrap();
        let b = tx.create_bucket("b").unwrap();
        for i in 0..120u32 { b.put(key(i * 2), vec![b'v'; 100]).unwrap(); }
        tx.commit().unwrap();
    }
    {
        let tx = db.tx(true).unwrap();
        {
            let b = tx.get_bucket("b").unwrap();
            for i in 10..100u32 { b.delete(key(i * 2)).unwrap(); }
            for i in 50..52u32 { b.put(key(i * 2 + 1), vec![b'O'; 8]).unwrap(); }
        }
        tx.commit().unwrap();
    }
    db.check().unwrap();
    let tx = db.tx(false).unwrap();
    let n = tx.get_bucket("b").unwrap().cursor().count();
    let _ = std::fs::remove_file(&p);
    assert_eq!(n, 32);
}

// E10 (C05): deleting a nested bucket and then its parent in the same transaction must not free pages twice.
#[test]
fn e10_delete_nested_then_parent_bucket() {
    let p = tmp("e10");
    let db = OpenOptions::new().pagesize(1024).open(&p).unwrap();
    {
        let tx = db.tx(true).unwrap();
        let b = tx.create_bucket("p").unwrap();
        let c = b.create_bucket("c").unwrap();
        c.put("k", "v").unwrap();
        tx.commit().unwrap();
    }
    {
        let tx = db.tx(true).unwrap();
        {
            let b = tx.get_bucket("p").unwrap();
            b.delete_bucket("c").unwrap();
        }
        tx.delete_bucket("p").unwrap();
        tx.commit().unwrap();
    }
    let r = db.check();
    let _ = std::fs::remove_file(&p);
    r.expect("page accounted twice after deleting a nested bucket and then its parent");
}

// E11 (C05/C01): a bucket entry merged into its right sibling must not be duplicated by the metadata update at commit.
#[test]
fn e11_merge_into_right_sibling_keeps_separator() {
    fn name(i: u32) -> Vec<u8> { let mut k = format!("b{:03}", i).into_bytes(); while k.len() < 300 { k.push(b'_'); } k }
    let p = tmp("e11");
    let db = OpenOptions::new().pagesize(1024).open(&p).unwrap();
    {
        let tx = db.tx(true).unwrap();
        for k in 0..12u32 { tx.create_bucket(name(k)).unwrap(); }
        tx.commit().unwrap();
    }
    {
        let tx = db.tx(true).unwrap();
        tx.get_bucket(name(5)).unwrap();        // loaded, so its entry is rewritten at commit
        tx.delete_bucket(name(4)).unwrap();     // its leaf-mate #5 is merged into the right sibling
        tx.commit().unwrap();
    }
    let r = db.check();
    let tx = db.tx(false).unwrap();
    let n = tx.buckets().count();
    drop(tx);
    let _ = std::fs::remove_file(&p);
    r.expect("a bucket entry exists in two leaves after the merge");
    assert_eq!(n, 11);
}

// E12 (C01): a commit that leaves the root with one untouched child must not panic.
#[test]
fn e12_promote_untouched_page_to_root() {
    let p = tmp("e12");
    let db = OpenOptions::new().pagesize(1024).open(&p).unwrap();
    {
        let tx = db.tx(true).unwrap();
        let b = tx.create_bucket("b").unwrap();
        for i in 0..8u32 { b.put(format!("k{:05}", i), vec![b'v'; 200]).unwrap(); }
        tx.commit().unwrap();
    }
    {
        let tx = db.tx(true).unwrap();
        {
            let b = tx.get_bucket("b").unwrap();
            for i in 0..6u32 { b.delete(format!("k{:05}", i)).unwrap(); }
        }
        tx.commit().unwrap();
    }
    db.check().unwrap();
    let tx = db.tx(false).unwrap();
    let n = tx.get_bucket("b").unwrap().cursor().count();
    drop(tx);
    let _ = std::fs::remove_file(&p);
    assert_eq!(n, 2);
}

// E2b (C11, KNOWN FINDING, same mechanism as E2): the header write is SHORT (its first 512 bytes, which contain the whole
// header record, reach the file) and the retry of the rest fails.  commit reports the error although the new header is
// valid in the file and in the map; the handle must nevertheless stay consistent.
#[test]
fn e2b_short_header_write_then_error() {
    let p = tmp("e2b");
    let ctl = std::env::var("IOSHIM_CTL").expect("run through run.sh");
    let db = OpenOptions::new().pagesize(1024).open(&p).unwrap();
    try_commit_keys(&db, 0, 10, 50).unwrap();
    try_commit_keys(&db, 10, 20, 50).unwrap();
    let before = contents(&db);
    // the next write below offset 2048 is the header write of the next commit
    std::fs::write(&ctl, "H 2048 512").unwrap();
    let r = try_commit_keys(&db, 20, 30, 50);
    std::fs::write(&ctl, "-1").unwrap();
    assert!(r.is_err(), "the injected fault must be reported");
    let now = contents(&db);
    let mut after = before.clone();
    for i in 20..30u32 { after.insert(format!("key{:05}", i).into_bytes(), vec![(i % 251) as u8; 50]); }
    assert!(now == before || now == after, "state after the failed commit is neither pre nor post");
    for r in 0..3u32 {
        try_commit_keys(&db, 100 + r * 10, 110 + r * 10, 50).expect("later commits must succeed");
        db.check().expect("database inconsistent after a commit that reported an I/O error on a short header write");
    }
    let _ = std::fs::remove_file(&p);
}

// E13 (C05; C01 "nothing panics except the documented misuse of a handle to an already deleted bucket"): a handle to a bucket
// NESTED in a bucket that has been deleted is a handle to a deleted bucket.  Using it must be refused the documented way (panic);
// it must never work on the freed pages: before the repair `b.delete_bucket("c")` answered Ok and freed c's page a second time,
// the commit succeeded and the file's free list named a page twice.
#[test]
fn e13_stale_handle_below_a_deleted_bucket() {
    let p = tmp("e13");
    let db = OpenOptions::new().pagesize(1024).open(&p).unwrap();
    {
        let tx = db.tx(true).unwrap();
        let a = tx.create_bucket("a").unwrap();
        let b = a.create_bucket("b").unwrap();
        let c = b.create_bucket("c").unwrap();
        c.put("k", "v").unwrap();
        tx.commit().unwrap();
    }
    let refused;
    {
        let tx = db.tx(true).unwrap();
        let a = tx.get_bucket("a").unwrap();
        let b = a.get_bucket("b").unwrap(); // handle taken before the ancestor goes away
        tx.delete_bucket("a").unwrap();
        let r = std::panic::catch_unwind(std::panic::AssertUnwindSafe(|| b.delete_bucket("c")));
        refused = r.is_err();
        drop(b);
        drop(a);
        tx.commit().unwrap();
    }
    let r = db.check();
    let _ = std::fs::remove_file(&p);
    r.expect("page accounted twice after a delete through a handle below a deleted bucket");
    assert!(refused, "a handle below a deleted bucket was accepted instead of being refused as a deleted bucket");
}

// E14 (C02, KNOWN FINDING): two consecutive power losses, each tearing a header write at 8-byte word granularity.  The commit
// redone after the first recovery gets the same transaction id and slot as the interrupted one; the first tear lands every
// changed word of the interrupted header except tx_id, the second lands only tx_id: the slot then holds the checksum-valid
// header of the DEAD commit, whose pages have been reused.
#[test]
fn e14_two_power_losses_resurrect_a_dead_header() {
    let ps = 4096usize;
    let (base, p1, p2) = (tmp("e14-base"), tmp("e14-c1"), tmp("e14-c2"));
    let open = |p: &std::path::PathBuf| OpenOptions::new().pagesize(4096).num_pages(64).open(p).unwrap();
    let put = |p: &std::path::PathBuf, from: u32, to: u32| { let db = open(p); try_commit_keys(&db, from, to, 120).unwrap(); };
    put(&base, 0, 40); put(&base, 20, 60);
    let img_a = std::fs::read(&base).unwrap();
    put(&base, 10, 50);
    let img_b = std::fs::read(&base).unwrap();
    let hdr_write = |before: &[u8], after: &[u8]| -> (usize, Vec<usize>) {
        let mut found = None;
        for slot in 0..2 { let b = slot * ps; let w: Vec<usize> = (0..ps).step_by(8).filter(|o| before[b + o..b + o + 8] != after[b + o..b + o + 8]).collect(); if !w.is_empty() { found = Some((slot, w)); } }
        found.unwrap()
    };
    let torn = |before: &[u8], after: &[u8], slot: usize, words: &[usize], mask: u32| -> Vec<u8> {
        let mut img = after.to_vec(); let b = slot * ps;
        img[b..b + ps].copy_from_slice(&before[b..b + ps]);
        for (i, o) in words.iter().enumerate() { if mask & (1 << i) != 0 { img[b + o..b + o + 8].copy_from_slice(&after[b + o..b + o + 8]); } }
        img
    };
    let (slot1, words1) = hdr_write(&img_a, &img_b);
    let mut bad = Vec::new();
    for mask1 in 0..(1u32 << words1.len()) {
        let c1 = torn(&img_a, &img_b, slot1, &words1, mask1);
        std::fs::write(&p1, &c1).unwrap();
        let rec = { let db = open(&p1); db.check().unwrap(); contents(&db) };
        put(&p1, 900, 901);
        let after = { let db = open(&p1); contents(&db) };
        let img_d = std::fs::read(&p1).unwrap();
        let (slot2, words2) = hdr_write(&c1, &img_d);
        for mask2 in 0..(1u32 << words2.len()) {
            std::fs::write(&p2, torn(&c1, &img_d, slot2, &words2, mask2)).unwrap();
            let pp = p2.clone();
            let got = std::panic::catch_unwind(move || { let db = OpenOptions::new().pagesize(4096).num_pages(64).open(&pp).unwrap(); db.check().map(|_| contents(&db)) });
            match got { Ok(Ok(s)) if s == rec || s == after => {}, other => bad.push(format!("masks {:#b}/{:#b}: {:?}", mask1, mask2, other.map(|r| r.map(|s| s.len())))) }
        }
    }
    for p in [&base, &p1, &p2] { let _ = std::fs::remove_file(p); }
    assert!(bad.is_empty(), "crash images after two power losses that are neither the state before nor after the interrupted commit: {:?}", bad);
}
