// LD_PRELOAD shim used by the defect reproductions (E1, E2): logs write/pwrite/pwrite64/fsync/fdatasync on
// regular files to $IOSHIM_LOG ("W <fd> <offset> <len>" / "S <fd> <result>") and makes the fsync whose
// ordinal (1-based, counted over the process) equals the integer stored in the file $IOSHIM_CTL fail with EIO.
// If $IOSHIM_CTL holds "W <n>" instead, the n-th write (1-based, counted over the process) to a matching file
// fails with EIO without writing anything ("W <fd> <offset> <len> FAIL" is logged).  "P <n> <len>" makes the n-th write
// short (<len> bytes) and the following write call fail: a short write followed by an error.  "Q <n> <len>": the n-th write is
// short and nothing fails (a correct caller writes the rest).
#define _GNU_SOURCE
#include <dlfcn.h>
#include <errno.h>
#include <fcntl.h>
#include <stdio.h>
#include <stdlib.h>
#include <string.h>
#include <sys/stat.h>
#include <unistd.h>

static int nsync = 0;
static void logline(const char *s) {
    const char *p = getenv("IOSHIM_LOG");
    if (!p) return;
    static int (*ropen)(const char *, int, ...) = 0;
    static ssize_t (*rwrite)(int, const void *, size_t) = 0;
    if (!ropen) ropen = dlsym(RTLD_NEXT, "open");
    if (!rwrite) rwrite = dlsym(RTLD_NEXT, "write");
    int fd = ropen(p, O_WRONLY | O_APPEND | O_CREAT, 0644);
    if (fd < 0) return;
    rwrite(fd, s, strlen(s));
    close(fd);
}
static int is_db(int fd) {
    struct stat st;
    if (fstat(fd, &st) != 0 || !S_ISREG(st.st_mode)) return 0;
    char lnk[64], path[512];
    snprintf(lnk, sizeof lnk, "/proc/self/fd/%d", fd);
    ssize_t n = readlink(lnk, path, sizeof path - 1);
    if (n <= 0) return 0;
    path[n] = 0;
    const char *tag = getenv("IOSHIM_MATCH");
    return tag && strstr(path, tag) != 0;
}
static int nwrite = 0;
// one write call on a database file, positioned (pwrite / pwrite64: `pos` >= 0 is the file offset) or not (write: the offset is the
// file cursor); the same faults apply to both, so a commit path that uses positioned writes is observed and faulted the same way
static ssize_t do_write(int fd, const void *buf, size_t len, long long pos) {
    static ssize_t (*rwrite)(int, const void *, size_t) = 0;
    static ssize_t (*rpwrite)(int, const void *, size_t, off_t) = 0;
    if (!rwrite) rwrite = dlsym(RTLD_NEXT, "write");
    if (!rpwrite) rpwrite = dlsym(RTLD_NEXT, "pwrite");
    if (is_db(fd)) {
        char l[128];
        long long off = pos >= 0 ? pos : (long long)lseek(fd, 0, SEEK_CUR);
        nwrite++;
        int failw = -1, shortw = -1, shortlen = 0, short_only = 0;
        const char *ctl = getenv("IOSHIM_CTL");
        if (ctl) {
            FILE *f = fopen(ctl, "r");
            if (f) {
                char mode = 0; int a = -1, b = 0;
                int got = fscanf(f, " %c %d %d", &mode, &a, &b);
                if (got >= 2 && mode == 'W') failw = a;
                if (got >= 3 && mode == 'P') { shortw = a; shortlen = b; }
                // "Q <n> <len>": the n-th write is SHORT and nothing fails afterwards (the caller is expected to write the rest)
                if (got >= 3 && mode == 'Q') { shortw = a; shortlen = b; short_only = 1; }
                // "H <limit> <len>": the first write at a file offset below <limit> (a header page) is short, the next call fails
                if (got >= 3 && mode == 'H') {
                    static int armed_at = -1;
                    if (armed_at < 0 && off < (long long)a) armed_at = nwrite;
                    if (armed_at >= 0) { shortw = armed_at; shortlen = b; }
                }
                fclose(f);
            }
        }
        // "P <n> <len>": the n-th write is SHORT (only the first <len> bytes reach the file), and the call that follows
        // it (write_all's retry with the rest) fails with EIO: "short write then error"
        if (shortw == nwrite && (size_t)shortlen < len) {
            snprintf(l, sizeof l, "W %d %lld %d SHORT\n", fd, off, shortlen);
            logline(l);
            return pos >= 0 ? rpwrite(fd, buf, (size_t)shortlen, (off_t)pos) : rwrite(fd, buf, (size_t)shortlen);
        }
        if (shortw >= 0 && !short_only && shortw + 1 == nwrite) failw = nwrite;
        if (failw == nwrite) {
            snprintf(l, sizeof l, "W %d %lld %zu FAIL\n", fd, off, len);
            logline(l);
            errno = EIO;
            return -1;
        }
        snprintf(l, sizeof l, "W %d %lld %zu\n", fd, off, len);
        logline(l);
    }
    return pos >= 0 ? rpwrite(fd, buf, len, (off_t)pos) : rwrite(fd, buf, len);
}
ssize_t write(int fd, const void *buf, size_t len) { return do_write(fd, buf, len, -1); }
ssize_t pwrite(int fd, const void *buf, size_t len, off_t pos) { return do_write(fd, buf, len, (long long)pos); }
ssize_t pwrite64(int fd, const void *buf, size_t len, off64_t pos) { return do_write(fd, buf, len, (long long)pos); }
static int sync_common(int fd, int (*real)(int)) {
    if (!is_db(fd)) return real(fd);
    nsync++;
    int failat = -1;
    const char *ctl = getenv("IOSHIM_CTL");
    if (ctl) {
        FILE *f = fopen(ctl, "r");
        if (f) { if (fscanf(f, "%d", &failat) != 1) failat = -1; fclose(f); }
    }
    char l[64];
    if (failat == nsync) {
        snprintf(l, sizeof l, "S %d FAIL\n", fd);
        logline(l);
        errno = EIO;
        return -1;
    }
    int r = real(fd);
    snprintf(l, sizeof l, "S %d %d\n", fd, r);
    logline(l);
    return r;
}
int fsync(int fd) {
    static int (*real)(int) = 0;
    if (!real) real = dlsym(RTLD_NEXT, "fsync");
    return sync_common(fd, real);
}
int fdatasync(int fd) {
    static int (*real)(int) = 0;
    if (!real) real = dlsym(RTLD_NEXT, "fdatasync");
    return sync_common(fd, real);
}
