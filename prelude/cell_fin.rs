// ---- prelude/cell_fin.rs: stand-ins for std::cell::RefCell / Ref / RefMut WITH the value a mutable borrow leaves behind ----
// Same sequential view as prelude/cell.rs (`cur()` is the value the cell holds when borrowed), plus `fin()`: the value the cell is
// left with once the RefMut taken by the function under contract is gone.  The RefMut is a REAL struct holding the mutable
// borrow (this Verus resolves the borrow's prophecy when the RefMut dies), as for MutexGuard in prelude/sync.rs.
// Used only by units whose functions borrow each cell mutably at most once per call (unit markdel).  Borrow-flag panics are not modelled.
#[verifier::external_body]
#[verifier::reject_recursive_types(T)]
pub struct RefCell<T> { _p: core::marker::PhantomData<T> }
#[verifier::external_body]
#[verifier::reject_recursive_types(T)]
pub struct Ref<'a, T> { _p: core::marker::PhantomData<&'a T> }
pub struct RefMut<'a, T> { pub inner: &'a mut T }
impl<T> RefCell<T> {
    pub uninterp spec fn cur(&self) -> T;
    pub uninterp spec fn fin(&self) -> T;
    #[verifier::external_body]
    pub fn new(v: T) -> (r: RefCell<T>)
        ensures r.cur() == v,
    { unimplemented!() }
    #[verifier::external_body]
    pub fn borrow(&self) -> (r: Ref<'_, T>)
        ensures r@ == self.cur(),
    { unimplemented!() }
    #[verifier::external_body]
    pub fn borrow_mut(&self) -> (r: RefMut<'_, T>)
        ensures r@ == self.cur(), *final(r.inner) == self.fin(),
    { unimplemented!() }
}
impl<'a, T> Ref<'a, T> {
    pub uninterp spec fn view(&self) -> T;
}
impl<'a, T> RefMut<'a, T> {
    pub open spec fn view(&self) -> T { *self.inner }
}
impl<'a, T> core::ops::Deref for Ref<'a, T> {
    type Target = T;
    #[verifier::external_body]
    fn deref(&self) -> (r: &T)
        ensures *r == self@,
    { unimplemented!() }
}
impl<'a, T> core::ops::Deref for RefMut<'a, T> {
    type Target = T;
    fn deref(&self) -> (r: &T)
        ensures *r == self@,
    { &*self.inner }
}
impl<'a, T> core::ops::DerefMut for RefMut<'a, T> {
    fn deref_mut(&mut self) -> (r: &mut T)
        ensures *r == old(self)@, final(self)@ == *final(r), *final(final(self).inner) == *final(old(self).inner),
    { &mut *self.inner }
}
