// ---- prelude/bucket_read_api.rs: what Bucket's read entry points hand to the user (unit bucketops) ----
// the public read value mirrors the entry it was made from: same kind, same key, same value (the definition of unit data, over key_view)
spec fn data_mirrors(d: Data, l: Leaf) -> bool {
    match (d, l) {
        (Data::KeyValue(kv), Leaf::Kv(k, v)) => key_view(kv.key) == key_view(k) && key_view(kv.value) == key_view(v),
        (Data::Bucket(b), Leaf::Bucket(n, _)) => key_view(b.name) == key_view(n),
        _ => false,
    }
}
// rule U25: `E.map(|data| data.into())` at type Option<Data>: Option::map over `From<Leaf> for Data`.  ASSUMED here; the conversion's
// clause Data_from_leaf.ensures#same-entry is PROVED on the real body in unit data
#[verifier::external_body]
fn map_into_data<'b, 'tx>(o: Option<Leaf<'tx>>) -> (r: Option<Data<'b, 'tx>>)
    ensures
        r is Some <==> o is Some,
        r matches Some(d) ==> data_mirrors(d, o->Some_0),
{ unimplemented!() }
// rule U26: `data.into()` at type Option<KVPair>: `From<Leaf> for Option<KVPair>`.  ASSUMED here; clauses #pairs-only and
// #same-key-and-value of KVPair_from_leaf are PROVED on the real body in unit data
#[verifier::external_body]
fn leaf_into_kv<'b, 'tx>(l: Leaf<'tx>) -> (r: Option<KVPair<'b, 'tx>>)
    ensures
        r is Some <==> l is Kv,
        r matches Some(kv) ==> (l matches Leaf::Kv(k, v) && key_view(kv.key) == key_view(k) && key_view(kv.value) == key_view(v)),
{ unimplemented!() }
