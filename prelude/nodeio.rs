// ---- prelude/nodeio.rs: vocabulary for the page a node occupies ----
#[verifier::external_body]
pub struct Bytes<'a> { _p: core::marker::PhantomData<&'a ()> }
// the bytes a `Bytes` value denotes (unit bytes proves that size / ordering / equality of Bytes are those of this view)
pub uninterp spec fn bytes_view(b: Bytes) -> Seq<u8>;
// serialised size of a node's entries: `nd_bytes`, what NodeData::size is PROVED to return in unit split
//@include prelude/nd_len.rs
//@include prelude/nd_size_spec.rs
// a node either has no page (0: new, or already given back) or names a run of tree pages
spec fn node_page_ok(n: Node) -> bool {
    n.page_id != 0 ==> n.page_id > 1 && n.num_pages > 0 && n.page_id + n.num_pages <= u64::MAX
}
// the run a node occupies, as a multiset of page ids (empty when it has none)
spec fn node_run(n: Node) -> Multiset<u64> {
    if n.page_id != 0 { id_run(n.page_id as int, n.num_pages as int).to_multiset() } else { Multiset::<u64>::empty() }
}
spec fn node_rest_same(a: Node, b: Node) -> bool {
    a.id == b.id && a.children == b.children && a.data == b.data && a.deleted == b.deleted && a.original_key == b.original_key
        && a.parent == b.parent && a.pagesize == b.pagesize
}
