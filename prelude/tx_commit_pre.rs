// ---- prelude/tx_commit_pre.rs: the precondition of Tx::commit (shared by units commit, crash and txn) ----
// what Tx::commit needs from the transaction it is called on: the part Tx::new is PROVED to establish for a writer (unit txn,
// #establishes-what-commit-needs) ...
spec fn tx_commit_core(t: TxInner) -> bool {
    let f = t.freelist.cur();
    &&& t.db.inner.pagesize >= 1024 && f.meta.pagesize == t.db.inner.pagesize
    &&& f.meta.tx_id == t.meta.tx_id
    &&& txfl_inv(f)
    // the transaction's snapshot map was made with the handle's page size and covers the file as it was when the transaction began
    &&& tx_map_ok(t)
    &&& t.meta.freelist_page > 1 && t.num_freelist_pages > 0 && t.meta.freelist_page + t.num_freelist_pages <= u64::MAX
    // every pending id, and the free-list run that will join them at commit, is a tree page below the high-water mark
    &&& pend_in_range(f.inner, f.meta.num_pages) && t.meta.freelist_page + t.num_freelist_pages <= f.meta.num_pages
}
// ... and the resource bound nobody can establish: whatever the tree layer allocates, the file offsets of the commit fit in u64
spec fn tx_commit_pre(t: TxInner) -> bool {
    let f = t.freelist.cur();
    &&& tx_commit_core(t)
    &&& forall|f2: TxFreelist, root: BucketMeta| #![trigger tree_frame(f, f2), wd_fits(TxInner { meta: Meta { root, ..t.meta }, ..t }, f2)]
            tree_frame(f, f2) ==> wd_fits(TxInner { meta: Meta { root, ..t.meta }, ..t }, f2)
}

// the map a transaction reads through: made with the handle's page size (a multiple of 8), and covering the whole file as it
// was when the transaction began (DBInner keeps map length == file length: open maps the whole file, resize remaps it)
#[verifier::opaque]
spec fn tx_map_ok(t: TxInner) -> bool {
    &&& t.pages.pagesize == t.db.inner.pagesize && t.db.inner.pagesize % 8 == 0
    &&& (t.lock matches TxLock::Rw(g) ==> (*t.pages.data)@.len() >= g@.len())
}
