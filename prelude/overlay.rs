// ---- prelude/overlay.rs: what InnerBucket::page_node / add_page_parent are written against ----
// stand-in for memmap2::Mmap: its view is the mapped file's bytes
#[verifier::external_body]
pub struct Mmap { _private: () }
impl Mmap {
    pub uninterp spec fn view(&self) -> Seq<u8>;
}
// the page header at byte offset id * pagesize of the map (ASSUMED a function of the bytes; layout pinned by Kani unit K1)
pub uninterp spec fn page_view(bytes: Seq<u8>, id: int, pagesize: int) -> Page;
// stub U23: the map of open child-bucket handles (a recursive Rc<RefCell<..>> type); nothing in this unit touches it
#[verifier::external_body]
pub struct BucketMap<'b> { _p: core::marker::PhantomData<&'b ()> }
// rule U23: `HashMap::new()` for the substituted field
#[verifier::external_body]
fn bucket_map_new<'b>() -> (r: BucketMap<'b>)
{ unimplemented!() }
#[verifier::external_body]
pub struct Bytes<'a> { _p: core::marker::PhantomData<&'a ()> }
// the bookkeeping invariant of the node table: every registered page names an existing node
spec fn ids_ok(b: InnerBucket) -> bool {
    forall|p: u64| #[trigger] b.page_node_ids@.contains_key(p) ==> b.page_node_ids@[p] < b.nodes@.len()
}
// the mapped page a page id denotes in this transaction's snapshot
spec fn mapped_page(b: InnerBucket, p: u64) -> Page {
    page_view((*b.pages.data)@, p as int, b.pages.pagesize as int)
}
// ---- for InnerBucket::new_child: the handle map's operations (stub U23) and small std pieces ----
pub uninterp spec fn key_of(b: Bytes) -> Seq<u8>;
impl<'a> Clone for Bytes<'a> {
    #[verifier::external_body]
    fn clone(&self) -> (r: Self)
        ensures key_of(r) == key_of(*self),
    { unimplemented!() }
}
impl<'b> BucketMap<'b> {
    pub uninterp spec fn has_handle(&self, k: Seq<u8>) -> bool;
    pub uninterp spec fn handle(&self, k: Seq<u8>) -> Rc<RefCell<InnerBucket<'b>>>;
    #[verifier::external_body]
    fn insert(&mut self, k: Bytes<'b>, v: Rc<RefCell<InnerBucket<'b>>>) -> (r: Option<Rc<RefCell<InnerBucket<'b>>>>)
        ensures final(self).has_handle(key_of(k)), final(self).handle(key_of(k)) == v,
    { unimplemented!() }
    #[verifier::external_body]
    fn get_mut(&mut self, k: &Bytes<'b>) -> (r: Option<&mut Rc<RefCell<InnerBucket<'b>>>>)
        ensures old(self).has_handle(key_of(*k)) ==> (r matches Some(h) && *h == old(self).handle(key_of(*k))),
            final(self).has_handle(key_of(*k)) == old(self).has_handle(key_of(*k)),
    { unimplemented!() }
}
impl Clone for Pages {
    #[verifier::external_body]
    fn clone(&self) -> (r: Self)
        ensures r == *self,
    { unimplemented!() }
}
pub uninterp spec fn bm_is_zero(m: BucketMeta) -> bool;
#[verifier::external_body]
proof fn axiom_bm_zero(m: BucketMeta)
    ensures bm_is_zero(m) == (m.root_page == 0 && m.next_int == 0),
{
}
impl Default for BucketMeta {
    #[verifier::external_body]
    fn default() -> (r: Self)
        ensures bm_is_zero(r),         // #[derive(Default)] over two u64
    { unimplemented!() }
}
