// ---- prelude/nd_size_spec.rs: serialised size of a node's entries (what NodeData::size is proved to compute, unit split) ----
// `bview` is the name unit bytes proves Bytes::size / as_ref against; here the enum is opaque and the view uninterpreted
spec fn bview(b: Bytes) -> Seq<u8> { bytes_view(b) }
// bytes one entry adds behind its element header: key, and value or the 16-byte bucket header
spec fn leaf_payload(l: Leaf) -> nat {
    match l { Leaf::Bucket(n, _) => bytes_view(n).len() + 16, Leaf::Kv(k, v) => bytes_view(k).len() + bytes_view(v).len() }
}
spec fn sum_b(s: Seq<Branch>) -> nat
    decreases s.len(),
{
    if s.len() == 0 { 0 } else { sum_b(s.drop_last()) + bytes_view(s.last().key).len() }
}
spec fn sum_l(s: Seq<Leaf>) -> nat
    decreases s.len(),
{
    if s.len() == 0 { 0 } else { sum_l(s.drop_last()) + leaf_payload(s.last()) }
}
// what NodeData::size computes: one element header per entry (24 / 32 bytes, pinned by Kani unit layout) plus the payloads
spec fn nd_bytes(d: NodeData) -> nat {
    match d {
        NodeData::Branches(b) => 24 * b@.len() + sum_b(b@),
        NodeData::Leaves(l) => 32 * l@.len() + sum_l(l@),
    }
}
proof fn lemma_sum_b_prefix(s: Seq<Branch>, i: int)
    requires 0 <= i <= s.len(),
    ensures sum_b(s.subrange(0, i)) <= sum_b(s),
        i < s.len() ==> sum_b(s.subrange(0, i + 1)) == sum_b(s.subrange(0, i)) + bytes_view(s[i].key).len(),
    decreases s.len() - i,
{
    if i < s.len() {
        assert(s.subrange(0, i + 1).drop_last() == s.subrange(0, i));
        lemma_sum_b_prefix(s, i + 1);
    } else {
        assert(s.subrange(0, i) == s);
    }
}
proof fn lemma_sum_l_prefix(s: Seq<Leaf>, i: int)
    requires 0 <= i <= s.len(),
    ensures sum_l(s.subrange(0, i)) <= sum_l(s),
        i < s.len() ==> sum_l(s.subrange(0, i + 1)) == sum_l(s.subrange(0, i)) + leaf_payload(s[i]),
    decreases s.len() - i,
{
    if i < s.len() {
        assert(s.subrange(0, i + 1).drop_last() == s.subrange(0, i));
        lemma_sum_l_prefix(s, i + 1);
    } else {
        assert(s.subrange(0, i) == s);
    }
}
// every single entry's payload fits a usize sum (Rust's allocation limit makes this true; stated as a resource bound)
spec fn nd_entries_fit(d: NodeData) -> bool {
    match d {
        NodeData::Branches(b) => true,
        NodeData::Leaves(l) => forall|i: int| 0 <= i < l@.len() ==> leaf_payload(#[trigger] l@[i]) <= usize::MAX,
    }
}

// a branch never points at a header page (pages 0 and 1)
spec fn node_links_ok(d: NodeData) -> bool {
    d matches NodeData::Branches(b) ==> forall|k: int| 0 <= k < b@.len() ==> (#[trigger] b@[k]).page > 1
}
