// ---- prelude/markdel_decl.rs: InnerBucket::mark_deleted as seen by unit bucketops (ASSUMED here) ----
// Its real body is PROVED in unit markdel against the stronger contract (#marked, #everything-open-below-marked,
// #only-the-flag-changes), which needs the cell model with fin() (prelude/cell_fin.rs); declared here with the same three clauses.
impl<'b> InnerBucket<'b> {
    #[verifier::external_body]
    fn mark_deleted(&mut self)
        requires
            bucket_wf(*old(self)),
        ensures
            final(self).deleted,
            forall|n: nat| #[trigger] marked_below(*final(self), n),
            final(self).meta == old(self).meta && final(self).dirty == old(self).dirty && final(self).muts@ == old(self).muts@
                && final(self).tree@ == old(self).tree@ && final(self).puts@ == old(self).puts@ && final(self).depth@ == old(self).depth@
                && final(self).buckets == old(self).buckets,
    { unimplemented!() }
}
