// ---- prelude/data_spec.rs: what the public read types say about the entry they were made from ----
spec fn data_mirrors(d: Data, l: Leaf) -> bool {
    match (d, l) {
        (Data::KeyValue(kv), Leaf::Kv(k, v)) => bytes_view(kv.key) == bytes_view(k) && bytes_view(kv.value) == bytes_view(v),
        (Data::Bucket(b), Leaf::Bucket(n, _)) => bytes_view(b.name) == bytes_view(n),
        _ => false,
    }
}
// carrier for `From<Leaf> for Option<KVPair>` verified as an inherent associated function (rule D6)
pub struct OptionKVPairFromLeaf<'b, 'tx> { pub _p: PhantomData<(&'b (), &'tx ())> }
