// ---- prelude/pagenode_types.rs: element types behind a PageNode (stand-ins; raw-pointer key access is assumed) ----
// keys are byte strings; `key_seq` is the key of one element
trait HasKey {
    spec fn key_seq(&self) -> Seq<u8>;
}
#[verifier::external_body]
pub struct Bytes<'a> { _p: core::marker::PhantomData<&'a ()> }
impl HasKey for LeafElement { uninterp spec fn key_seq(&self) -> Seq<u8>; }
impl HasKey for BranchElement { uninterp spec fn key_seq(&self) -> Seq<u8>; }
// the bytes a `Bytes` value denotes (unit bytes proves that ordering / equality of Bytes are those of this view)
pub uninterp spec fn bytes_view(b: Bytes) -> Seq<u8>;
impl<'a> Clone for Bytes<'a> {
    #[verifier::external_body]
    fn clone(&self) -> (r: Self)
        ensures bytes_view(r) == bytes_view(*self),
    { unimplemented!() }
}
impl<'a> Bytes<'a> {
    // bytes.rs `AsRef<[u8]> for Bytes` (proved against the byte view in unit bytes: Bytes_as_ref)
    #[verifier::external_body]
    fn as_ref(&self) -> (r: &[u8])
        ensures r@ == bytes_view(*self),
    { unimplemented!() }
}
impl<'a> HasKey for Branch<'a> { spec fn key_seq(&self) -> Seq<u8> { bytes_view(self.key) } }
impl<'a> HasKey for Leaf<'a> {
    spec fn key_seq(&self) -> Seq<u8> {
        match *self { Leaf::Bucket(n, _) => bytes_view(n), Leaf::Kv(k, _) => bytes_view(k) }
    }
}
//@include prelude/keyorder.rs
spec fn keys_ascending<E: HasKey>(s: Seq<E>) -> bool {
    forall|i: int, j: int| 0 <= i < j < s.len() ==> slice_lt::<u8>(#[trigger] s[i].key_seq(), #[trigger] s[j].key_seq())
}
// rule R6: `X.binary_search_by_key(&key, |e| e.key())` -> `X.bsearch_by_key_v(key)`; std's contract for a slice sorted by key
spec fn bsearch_ok<E: HasKey>(s: Seq<E>, key: Seq<u8>, r: core::result::Result<usize, usize>) -> bool {
    &&& r matches Ok(i) ==> i < s.len() && s[i as int].key_seq() == key
    &&& r matches Err(i) ==> i <= s.len()
    &&& keys_ascending(s) ==> (r matches Err(i) ==> {
            &&& forall|j: int| 0 <= j < i ==> slice_lt::<u8>(#[trigger] s[j].key_seq(), key)
            &&& forall|j: int| i <= j < s.len() ==> slice_lt::<u8>(key, #[trigger] s[j].key_seq())
        })
}
trait BSearchByKey<E: HasKey> {
    spec fn elems(&self) -> Seq<E>;
    fn bsearch_by_key_v(&self, key: &[u8]) -> (r: core::result::Result<usize, usize>)
        ensures bsearch_ok(self.elems(), key@, r);
}
impl<E: HasKey> BSearchByKey<E> for [E] {
    spec fn elems(&self) -> Seq<E> { self@ }
    #[verifier::external_body]
    fn bsearch_by_key_v(&self, key: &[u8]) -> (r: core::result::Result<usize, usize>) { unimplemented!() }
}
impl<E: HasKey> BSearchByKey<E> for Vec<E> {
    spec fn elems(&self) -> Seq<E> { self@ }
    #[verifier::external_body]
    fn bsearch_by_key_v(&self, key: &[u8]) -> (r: core::result::Result<usize, usize>) { unimplemented!() }
}
// stubs U17/U18: the casts inside Page::leaf_elements / Page::branch_elements: `count` element headers at the data offset
#[verifier::external_body]
fn page_leaf_elements_cast<'a>(p: &'a Page) -> (r: &'a [LeafElement])
    ensures r@.len() == p.count, r@ == page_leaf_elems(*p),
{ unimplemented!() }
#[verifier::external_body]
fn page_branch_elements_cast<'a>(p: &'a Page) -> (r: &'a [BranchElement])
    ensures r@.len() == p.count, r@ == page_branch_elems(*p),
{ unimplemented!() }
// value bytes of an in-memory entry: the value, or the 16 bytes of the nested bucket's header
spec fn leaf_val_len(l: Leaf) -> nat { match l { Leaf::Bucket(_, _) => 16, Leaf::Kv(_, v) => bytes_view(v).len() } }
impl BucketMeta {
    // bucket.rs `AsRef<[u8]> for BucketMeta`: the struct's 16 bytes (raw-pointer view; Kani k1_bucket_meta_codec pins length and content)
    #[verifier::external_body]
    fn as_ref(&self) -> (r: &[u8])
        ensures r@.len() == 16,
    { unimplemented!() }
}
// the payload bytes of a leaf element in a mapped page, and the bucket header such bytes denote
impl LeafElement {
    pub uninterp spec fn val_seq(&self) -> Seq<u8>;
    // page.rs LeafElement::key / value: raw-pointer reads relative to the element header (ASSUMED: functions of the element)
    #[verifier::external_body]
    fn key<'x>(&self) -> (r: &'x [u8])
        ensures r@ == self.key_seq(),
    { unimplemented!() }
    #[verifier::external_body]
    fn value<'x>(&self) -> (r: &'x [u8])
        ensures r@ == self.val_seq(),
    { unimplemented!() }
}
impl BranchElement {
    #[verifier::external_body]
    fn key<'x>(&self) -> (r: &'x [u8])
        ensures r@ == self.key_seq(),
    { unimplemented!() }
}
pub uninterp spec fn meta_of_bytes(s: Seq<u8>) -> BucketMeta;
// rule U20: `Bytes::Slice(E)` -> `bytes_slice(E)` (the enum is opaque in this unit; unit bytes proves the view of each variant)
#[verifier::external_body]
fn bytes_slice<'x>(s: &'x [u8]) -> (r: Bytes<'x>)
    ensures bytes_view(r) == s@,
{ unimplemented!() }
// rule U21: `E.into()` at type BucketMeta (`From<&[u8]> for BucketMeta`: an aligned copy and a cast; ASSUMED a function of the bytes)
#[verifier::external_body]
fn bucket_meta_from(s: &[u8]) -> (r: BucketMeta)
    ensures r == meta_of_bytes(s@),
{ unimplemented!() }
// what an in-memory entry says, for comparison with the element it was built from
spec fn leaf_mirrors(r: Leaf, l: LeafElement) -> bool {
    match r {
        Leaf::Kv(k, v) => l.node_type == 0 && bytes_view(k) == l.key_seq() && bytes_view(v) == l.val_seq(),
        Leaf::Bucket(n, m) => l.node_type == 1 && bytes_view(n) == l.key_seq() && m == meta_of_bytes(l.val_seq()),
    }
}
// same entry: same key, same kind, same payload
pub closed spec fn leaf_same(a: Leaf, b: Leaf) -> bool {
    match (a, b) {
        (Leaf::Kv(k1, v1), Leaf::Kv(k2, v2)) => bytes_view(k1) == bytes_view(k2) && bytes_view(v1) == bytes_view(v2),
        (Leaf::Bucket(n1, m1), Leaf::Bucket(n2, m2)) => bytes_view(n1) == bytes_view(n2) && m1 == m2,
        _ => false,
    }
}
