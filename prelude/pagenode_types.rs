// ---- prelude/pagenode_types.rs: element types behind a PageNode (stand-ins; raw-pointer key access is assumed) ----
// keys are byte strings; `key_seq` is the key of one element
trait HasKey {
    spec fn key_seq(&self) -> Seq<u8>;
}
#[verifier::external_body]
pub struct Bytes<'a> { _p: core::marker::PhantomData<&'a ()> }
impl HasKey for LeafElement { uninterp spec fn key_seq(&self) -> Seq<u8>; }
impl HasKey for BranchElement { uninterp spec fn key_seq(&self) -> Seq<u8>; }
// the bytes a `Bytes` value denotes (unit bytes proves that ordering / equality of Bytes are those of this view)
pub uninterp spec fn bytes_view(b: Bytes) -> Seq<u8>;
impl<'a> Clone for Bytes<'a> {
    #[verifier::external_body]
    fn clone(&self) -> (r: Self)
        ensures bytes_view(r) == bytes_view(*self),
    { unimplemented!() }
}
impl<'a> Bytes<'a> {
    // bytes.rs `AsRef<[u8]> for Bytes` (proved against the byte view in unit bytes: Bytes_as_ref)
    #[verifier::external_body]
    fn as_ref(&self) -> (r: &[u8])
        ensures r@ == bytes_view(*self),
    { unimplemented!() }
}
impl<'a> HasKey for Branch<'a> { spec fn key_seq(&self) -> Seq<u8> { bytes_view(self.key) } }
impl<'a> HasKey for Leaf<'a> {
    spec fn key_seq(&self) -> Seq<u8> {
        match *self { Leaf::Bucket(n, _) => bytes_view(n), Leaf::Kv(k, _) => bytes_view(k) }
    }
}
//@include prelude/keyorder.rs
spec fn keys_ascending<E: HasKey>(s: Seq<E>) -> bool {
    forall|i: int, j: int| 0 <= i < j < s.len() ==> slice_lt::<u8>(#[trigger] s[i].key_seq(), #[trigger] s[j].key_seq())
}
// rule R6: `X.binary_search_by_key(&key, |e| e.key())` -> `X.bsearch_by_key_v(key)`; std's contract for a slice sorted by key
spec fn bsearch_ok<E: HasKey>(s: Seq<E>, key: Seq<u8>, r: core::result::Result<usize, usize>) -> bool {
    &&& r matches Ok(i) ==> i < s.len() && s[i as int].key_seq() == key
    &&& r matches Err(i) ==> i <= s.len()
    &&& keys_ascending(s) ==> (r matches Err(i) ==> {
            &&& forall|j: int| 0 <= j < i ==> slice_lt::<u8>(#[trigger] s[j].key_seq(), key)
            &&& forall|j: int| i <= j < s.len() ==> slice_lt::<u8>(key, #[trigger] s[j].key_seq())
        })
}
trait BSearchByKey<E: HasKey> {
    spec fn elems(&self) -> Seq<E>;
    fn bsearch_by_key_v(&self, key: &[u8]) -> (r: core::result::Result<usize, usize>)
        ensures bsearch_ok(self.elems(), key@, r);
}
impl<E: HasKey> BSearchByKey<E> for [E] {
    spec fn elems(&self) -> Seq<E> { self@ }
    #[verifier::external_body]
    fn bsearch_by_key_v(&self, key: &[u8]) -> (r: core::result::Result<usize, usize>) { unimplemented!() }
}
impl<E: HasKey> BSearchByKey<E> for Vec<E> {
    spec fn elems(&self) -> Seq<E> { self@ }
    #[verifier::external_body]
    fn bsearch_by_key_v(&self, key: &[u8]) -> (r: core::result::Result<usize, usize>) { unimplemented!() }
}
// stubs U17/U18: the casts inside Page::leaf_elements / Page::branch_elements: `count` element headers at the data offset
#[verifier::external_body]
fn page_leaf_elements_cast<'a>(p: &'a Page) -> (r: &'a [LeafElement])
    ensures r@.len() == p.count, r@ == page_leaf_elems(*p),
{ unimplemented!() }
#[verifier::external_body]
fn page_branch_elements_cast<'a>(p: &'a Page) -> (r: &'a [BranchElement])
    ensures r@.len() == p.count, r@ == page_branch_elems(*p),
{ unimplemented!() }
impl<'a> Leaf<'a> {
    // node.rs Leaf::key: the key bytes (Bytes::as_ref; assumed)
    #[verifier::external_body]
    fn key(&self) -> (r: &[u8])
        ensures r@ == self.key_seq(),
    { unimplemented!() }
    // node.rs Leaf::from_leaf: builds a Leaf over the element's key/value bytes (raw-pointer reads; assumed)
    #[verifier::external_body]
    fn from_leaf<'b>(l: &'b LeafElement) -> (r: Leaf<'a>)
    { unimplemented!() }
}
