// ---- prelude/freelist_spec.rs: specification vocabulary of the free-list layer (spec fns and proved lemmas) ----
// [q, q+n) lies inside s
spec fn run_in(s: Set<u64>, q: int, n: int) -> bool {
    forall|i: int| q <= i < q + n ==> 0 <= i <= u64::MAX && #[trigger] s.contains(i as u64)
}

spec fn sorted_strict(s: Seq<&u64>) -> bool {
    forall|i: int, j: int| 0 <= i < j < s.len() ==> *#[trigger] s[i] < *#[trigger] s[j]
}

spec fn enumerates(s: Seq<&u64>, fs: Set<u64>) -> bool {
    forall|x: u64| fs.contains(x) ==> #[trigger] s.contains(&x)
}

proof fn lemma_sorted(s: Seq<&u64>)
    requires increasing_seq(s)
    ensures sorted_strict(s)
{
    broadcast use axiom_increasing_seq_meaning;
    assert forall|i: int, j: int| 0 <= i < j < s.len() implies *#[trigger] s[i] < *#[trigger] s[j] by {
        assert(vstd::std_specs::cmp::OrdSpec::cmp_spec(&s[i], &s[j]) == core::cmp::Ordering::Less);
    }
}

// an element of fs cannot sit strictly between two neighbours of the enumeration, below its first or above its last
proof fn lemma_gap(s: Seq<&u64>, fs: Set<u64>, k: int, x: u64)
    requires sorted_strict(s), enumerates(s, fs), fs.contains(x), 0 <= k < s.len(),
    ensures
        k > 0 ==> !(*s[k - 1] < x < *s[k]),
        x >= *s[0],
        x <= *s[s.len() - 1],
{
    assert(s.contains(&x));
    let t = choose|t: int| 0 <= t < s.len() && s[t] == &x;
    if k > 0 && *s[k - 1] < x && x < *s[k] {
        if t <= k - 1 { if t < k - 1 { assert(*s[t] < *s[k - 1]); } }
        else { if t > k { assert(*s[k] < *s[t]); } }
    }
    if t > 0 { assert(*s[0] < *s[t]); }
    if t < s.len() - 1 { assert(*s[t] < *s[s.len() - 1]); }
}

spec fn pend_get(m: Map<u64, Vec<PageID>>, k: u64) -> Seq<u64> {
    if m.contains_key(k) { m[k]@ } else { Seq::empty() }
}

// x is a pending page of some transaction
spec fn pending_has(pend: Map<u64, Vec<PageID>>, x: u64) -> bool {
    exists|k: u64| pend.contains_key(k) && #[trigger] pend[k]@.contains(x)
}

// pages released by release(bound): every pending page of a transaction below bound
spec fn released(pend: Map<u64, Vec<PageID>>, bound: u64, x: u64) -> bool {
    exists|k: u64| pend.contains_key(k) && k < bound && #[trigger] pend[k]@.contains(x)
}
spec fn in_prefix(ids: Seq<u64>, i: int, k: u64) -> bool {
    exists|j: int| 0 <= j < i && #[trigger] ids[j] == k
}
spec fn page_in_prefix(pend: Map<u64, Vec<PageID>>, ids: Seq<u64>, i: int, x: u64) -> bool {
    exists|j: int| 0 <= j < i && #[trigger] pend[ids[j]]@.contains(x)
}

// ---- the multiset of all pending pages, as a fold over the map's domain ----
spec fn ms_add(m: Map<u64, Vec<PageID>>) -> spec_fn(Multiset<u64>, u64) -> Multiset<u64> {
    |acc: Multiset<u64>, k: u64| acc.add(m[k]@.to_multiset())
}
spec fn pend_ms_over(m: Map<u64, Vec<PageID>>, s: Set<u64>) -> Multiset<u64> {
    s.fold(Multiset::<u64>::empty(), ms_add(m))
}
spec fn pend_ms(m: Map<u64, Vec<PageID>>) -> Multiset<u64> { pend_ms_over(m, m.dom()) }

proof fn lemma_pend_ms_empty(m: Map<u64, Vec<PageID>>)
    ensures pend_ms_over(m, Set::<u64>::empty()) == Multiset::<u64>::empty(),
{
    lemma_fold_empty(Multiset::<u64>::empty(), ms_add(m));
    assert(Set::<u64>::empty().to_iset() =~= ISet::<u64>::empty());
}
proof fn lemma_pend_ms_insert(m: Map<u64, Vec<PageID>>, s: Set<u64>, k: u64)
    requires !s.contains(k),
    ensures pend_ms_over(m, s.insert(k)) == pend_ms_over(m, s).add(m[k]@.to_multiset()),
{
    let f = ms_add(m);
    assert(is_fun_commutative(f)) by {
        assert forall|a1: u64, a2: u64, b: Multiset<u64>| #[trigger] f(f(b, a2), a1) == f(f(b, a1), a2) by {
            assert(b.add(m[a2]@.to_multiset()).add(m[a1]@.to_multiset()) =~= b.add(m[a1]@.to_multiset()).add(m[a2]@.to_multiset()));
        }
    }
    lemma_fold_insert(s.to_iset(), Multiset::<u64>::empty(), f, k);
    assert(s.insert(k).to_iset() =~= s.to_iset().insert(k));
}

// the fold only looks at the entries of the set it ranges over
proof fn lemma_pend_ms_congruent(m1: Map<u64, Vec<PageID>>, m2: Map<u64, Vec<PageID>>, s: Set<u64>)
    requires forall|k: u64| s.contains(k) ==> m1[k]@ == m2[k]@,
    ensures pend_ms_over(m1, s) == pend_ms_over(m2, s),
    decreases s.len(),
{
    if s.len() == 0 {
        assert(s =~= Set::<u64>::empty());
        lemma_pend_ms_empty(m1);
        lemma_pend_ms_empty(m2);
    } else {
        let x = s.choose();
        let t = s.remove(x);
        lemma_pend_ms_congruent(m1, m2, t);
        lemma_pend_ms_insert(m1, t, x);
        lemma_pend_ms_insert(m2, t, x);
        assert(t.insert(x) =~= s);
    }
}

// appending one id to the entry of transaction k adds exactly that id to the pending multiset
proof fn lemma_pend_ms_push(m: Map<u64, Vec<PageID>>, m2: Map<u64, Vec<PageID>>, k: u64, x: u64)
    requires
        m2.dom() == m.dom().insert(k),
        forall|j: u64| j != k && m.contains_key(j) ==> #[trigger] m2[j] == m[j],
        m2[k]@ == pend_get(m, k).push(x),
    ensures pend_ms(m2) == pend_ms(m).insert(x),
{
    let s = m.dom().remove(k);
    lemma_pend_ms_congruent(m, m2, s);
    lemma_pend_ms_insert(m2, s, k);
    assert(s.insert(k) =~= m2.dom());
    vstd::seq_lib::lemma_multiset_commutative(pend_get(m, k), seq![x]);
    assert(pend_get(m, k).push(x) =~= pend_get(m, k) + seq![x]);
    assert(seq![x].to_multiset() =~= Multiset::<u64>::empty().insert(x)) by {
        broadcast use vstd::seq_lib::group_to_multiset_ensures;
        assert(seq![x] =~= Seq::<u64>::empty().push(x));
    }
    if m.contains_key(k) {
        lemma_pend_ms_insert(m, s, k);
        assert(s.insert(k) =~= m.dom());
        assert(pend_ms(m2) =~= pend_ms(m).insert(x));
    } else {
        assert(s =~= m.dom());
        assert(pend_get(m, k).to_multiset() =~= Multiset::<u64>::empty()) by {
            broadcast use vstd::seq_lib::group_to_multiset_ensures;
        }
        assert(pend_ms(m2) =~= pend_ms(m).insert(x));
    }
}

// keys visited by the first i steps of a BTreeMap iteration
spec fn key_seq(s: Seq<(&u64, &Vec<PageID>)>, i: int) -> Seq<u64> {
    Seq::new(i as nat, |j: int| *s[j].0)
}
spec fn keys_prefix(s: Seq<(&u64, &Vec<PageID>)>, i: int) -> Set<u64> {
    key_seq(s, i).to_set()
}
proof fn lemma_push_to_set(q: Seq<u64>, x: u64)
    ensures q.push(x).to_set() =~= q.to_set().insert(x),
{
    assert forall|y: u64| q.push(x).to_set().contains(y) <==> q.to_set().insert(x).contains(y) by {
        if q.push(x).contains(y) {
            let j = choose|j: int| 0 <= j < q.push(x).len() && q.push(x)[j] == y;
            if j < q.len() { assert(q[j] == y); }
        }
        if q.contains(y) {
            let j = choose|j: int| 0 <= j < q.len() && q[j] == y;
            assert(q.push(x)[j] == y);
        }
        if y == x { assert(q.push(x)[q.len() as int] == x); }
    }
}

proof fn lemma_multiset_contains(a: Seq<u64>, b: Seq<u64>, x: u64)
    requires a.to_multiset() == b.to_multiset(),
    ensures a.contains(x) <==> b.contains(x),
{
    broadcast use vstd::seq_lib::group_to_multiset_ensures;
    assert(a.contains(x) <==> a.to_multiset().count(x) > 0);
    assert(b.contains(x) <==> b.to_multiset().count(x) > 0);
}

// number of pages needed for `bytes` (the code's formula)
spec fn pages_for(bytes: u64, ps: u64) -> int {
    if ps == 0 { 0 } else if bytes % ps == 0 { (bytes / ps) as int } else { (bytes / ps) as int + 1 }
}

// pages_for is the exact ceiling: the least n with n * ps >= bytes
proof fn lemma_pages_for(bytes: u64, ps: u64)
    requires ps > 0, bytes > 0,
    ensures
        pages_for(bytes, ps) >= 1,
        pages_for(bytes, ps) * ps >= bytes > (pages_for(bytes, ps) - 1) * ps,
        bytes % ps != 0 ==> bytes / ps < u64::MAX,
{
    let q = (bytes / ps) as int;
    let r = (bytes % ps) as int;
    assert(bytes == q * ps + r && 0 <= r < ps) by(nonlinear_arith)
        requires q == (bytes / ps) as int, r == (bytes % ps) as int, ps > 0;
    if r == 0 {
        assert(q >= 1) by(nonlinear_arith) requires bytes == q * ps, bytes > 0, ps > 0;
        assert((q - 1) * ps < q * ps) by(nonlinear_arith) requires ps > 0;
    } else {
        assert((q + 1) * ps == q * ps + ps) by(nonlinear_arith);
        assert(q < u64::MAX) by(nonlinear_arith) requires bytes == q * ps + r, r > 0, r < ps, ps >= 1, bytes <= u64::MAX, q >= 0;
    }
}

// the ids page_id, page_id+1, .., page_id+n-1
spec fn id_run(p: int, n: int) -> Seq<u64> {
    Seq::new(n as nat, |i: int| (p + i) as u64)
}

// every PENDING page (of whatever transaction) is a tree page below the high-water mark n
spec fn pend_in_range(f: Freelist, n: u64) -> bool {
    forall|k: u64, x: u64| f.pending_pages@.contains_key(k) && #[trigger] f.pending_pages@[k]@.contains(x) ==> 1 < x < n
}
proof fn lemma_id_run_members(p: int, n: int, x: u64)
    requires n >= 0, id_run(p, n).contains(x), 0 <= p, p + n <= u64::MAX,
    ensures p <= x < p + n,
{
    let i = choose|i: int| 0 <= i < id_run(p, n).len() && id_run(p, n)[i] == x;
    assert(id_run(p, n)[i] == (p + i) as u64);
}
spec fn meta_same_but_num_pages(a: Meta, b: Meta) -> bool {
    &&& a.meta_page == b.meta_page && a.magic == b.magic && a.version == b.version && a.pagesize == b.pagesize
    &&& a.root == b.root && a.freelist_page == b.freelist_page && a.tx_id == b.tx_id && a.hash == b.hash
}

impl Freelist {
    // number of ids pages() returns: free pages plus every pending entry (with multiplicity)
    spec fn total_len(&self) -> nat {
        self.free_pages@.len() + pend_ms(self.pending_pages@).len()
    }

    spec fn wf(&self) -> bool {
        forall|p: u64| self.free_pages@.contains(p) ==> 1 < p < u64::MAX
    }
}

impl<'a> TxFreelist {
    // every page allocated in this transaction lies, with its whole run, between the headers and the high-water mark
    spec fn pages_wf(&self) -> bool {
        forall|k: u64| #![trigger self.pages@.contains_key(k)] self.pages@.contains_key(k) ==> {
            &&& k > 1
            &&& self.pages@[k].1 >= 40
            &&& blk_len(self.pages@[k].0) >= self.pages@[k].1
            &&& k + pages_for(self.pages@[k].1 as u64, self.meta.pagesize) <= self.meta.num_pages
        }
    }

    // every free page lies below the high-water mark
    spec fn below_hwm(&self) -> bool {
        forall|p: u64| self.inner.free_pages@.contains(p) ==> p < self.meta.num_pages
    }
}
