// ---- prelude/split_bucket.rs: the part of InnerBucket that Node::split touches (stand-in: the node table and the page size) ----
// The real struct is a graph of Rc<RefCell<..>> with HashMaps keyed by byte strings; `new_node` only appends to `nodes`.
pub struct Pages { pub pagesize: u64 }
pub struct InnerBucket<'b> {
    pub nodes: Vec<Rc<RefCell<Node<'b>>>>,
    pub pages: Pages,
}
