// ---- prelude/writenode.rs: what Page::write_node is written against (raw-pointer accessors as assumed contracts) ----
// rule R23: the element a zip(iter_mut) loop hands out: std's IndexMut on a slice
#[verifier::external_body]
fn slice_at_mut<T>(s: &mut [T], i: usize) -> (r: &mut T)
    requires i < old(s)@.len(),
    ensures *r == old(s)@[i as int], final(s)@ == old(s)@.update(i as int, *final(r)),
{ unimplemented!() }
// rule R24: `&mut buf[(a)..]` used through `io::Write for &mut [u8]`: a cursor over the bytes from `a` on.  write_all copies the
// data to the front and advances; it fails (WriteZero) exactly when the data does not fit (std's documented behaviour; ASSUMED)
#[verifier::external_body]
pub struct SliceCursor<'a> { _p: core::marker::PhantomData<&'a mut [u8]> }
impl<'a> SliceCursor<'a> {
    pub uninterp spec fn room(&self) -> nat;               // bytes still free
    pub uninterp spec fn written(&self) -> Seq<u8>;        // bytes copied so far, in order
    #[verifier::external_body]
    fn write_all(&mut self, data: &[u8]) -> (r: core::result::Result<(), std::io::Error>)
        ensures
            data@.len() <= old(self).room() ==> r is Ok && final(self).room() == old(self).room() - data@.len() && final(self).written() == old(self).written() + data@,
            data@.len() > old(self).room() ==> r is Err,
    { unimplemented!() }
}
#[verifier::external_body]
fn slice_cursor_from<'a>(s: &'a mut [u8], from: usize) -> (r: SliceCursor<'a>)
    requires from <= old(s)@.len(),                         // the range check of `&mut s[from..]`
    ensures r.room() == old(s)@.len() - from, r.written() == Seq::<u8>::empty(),
{ unimplemented!() }
// the header fields the element area does not overlap (the `ptr` field IS the first word of the element area)
spec fn page_hdr_same(a: Page, b: Page) -> bool {
    a.id == b.id && a.page_type == b.page_type && a.count == b.count && a.overflow == b.overflow
}
// total length of the payload slices queued for copying
spec fn total_len(s: Seq<&[u8]>) -> nat
    decreases s.len(),
{
    if s.len() == 0 { 0 } else { total_len(s.drop_last()) + s.last()@.len() }
}
proof fn lemma_total_len_push(s: Seq<&[u8]>, x: &[u8])
    ensures total_len(s.push(x)) == total_len(s) + x@.len(),
{
    assert(s.push(x).drop_last() == s);
}
proof fn lemma_total_len_split(s: Seq<&[u8]>, i: int)
    requires 0 <= i < s.len(),
    ensures total_len(s.subrange(i, s.len() as int)) == s[i]@.len() + total_len(s.subrange(i + 1, s.len() as int)),
    decreases s.len() - i,
{
    let t = s.subrange(i, s.len() as int);
    if i + 1 == s.len() {
        assert(t.drop_last() =~= Seq::<&[u8]>::empty());
        assert(s.subrange(i + 1, s.len() as int) =~= Seq::<&[u8]>::empty());
    } else {
        assert(t.drop_last() =~= s.subrange(i, s.len() - 1));
        assert(s.subrange(i + 1, s.len() as int).drop_last() =~= s.subrange(i + 1, s.len() - 1));
        lemma_total_len_split(s.drop_last(), i);
        assert(s.drop_last().subrange(i, s.len() - 1) =~= s.subrange(i, s.len() - 1));
        assert(s.drop_last().subrange(i + 1, s.len() - 1) =~= s.subrange(i + 1, s.len() - 1));
        assert(s.drop_last()[i] == s[i]);
    }
}
// where write_node puts entry k of n: element headers first (hs bytes each), payloads behind them in entry order;
// `pos` is relative to the element header itself
spec fn branch_elem_ok(e: BranchElement, bs: Seq<Branch>, k: int) -> bool {
    e.page == bs[k].page && e.key_size == bytes_view(bs[k].key).len() && e.pos == 24 * (bs.len() - k) + sum_b(bs.subrange(0, k))
}
spec fn leaf_elem_ok(e: LeafElement, ls: Seq<Leaf>, k: int) -> bool {
    e.node_type == (if ls[k] is Kv { 0u8 } else { 1u8 }) && e.key_size == ls[k].key_seq().len() && e.value_size == leaf_val_len(ls[k])
        && e.pos == 32 * (ls.len() - k) + sum_l(ls.subrange(0, k))
}
