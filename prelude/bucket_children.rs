// ---- prelude/bucket_children.rs: the open child buckets of a bucket as a listing (shared by units bucketcommit, markdel, bucketops) ----
pub type ChildEntry<'b> = (Seq<u8>, Rc<RefCell<InnerBucket<'b>>>);
impl<'b> BucketMap<'b> {
    pub uninterp spec fn entries(&self) -> Seq<ChildEntry<'b>>;
    pub uninterp spec fn child_bound(&self) -> nat;
}
// structural invariant of a bucket handle (ASSUMED of every handle the map hands out; kept by the functions under contract)
spec fn bucket_wf(b: InnerBucket) -> bool {
    b.buckets.child_bound() <= b.depth@ && b.meta.next_int < u64::MAX && children_have_entries(b)
}
// the handle a name was registered under, taken out of the map: it is one of the handles the map hands out (bucket_wf ASSUMED, as for
// the iterators of prelude/bucketcommit.rs)
#[verifier::external_body]
proof fn axiom_removed_handle_wf<'b>(m: BucketMap<'b>, k: Seq<u8>)
    requires m.has(k),
    ensures bucket_wf((*m.cell(k)).cur()),
{
}
