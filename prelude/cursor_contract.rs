// ---- prelude/cursor_contract.rs: the documented semantics of Cursor as an ASSUMED contract (unit R1 is relative to it) ----
// Key order: byte strings compared lexicographically by std; vstd gives slice comparison no meaning, so it is an
// uninterpreted strict total order (laws below are assumed).
//@include prelude/keyorder.rs
pub open spec fn keys_ascending(e: Seq<Seq<u8>>) -> bool {
    forall|i: int, j: int| 0 <= i < j < e.len() ==> slice_lt::<u8>(#[trigger] e[i], #[trigger] e[j])
}

#[verifier::external_body]
pub struct Data<'b, 'tx> { _p: core::marker::PhantomData<(&'b (), &'tx ())> }
impl<'b, 'tx> Data<'b, 'tx> {
    pub uninterp spec fn key_spec(&self) -> Seq<u8>;
    #[verifier::external_body]
    pub fn key(&self) -> (r: &[u8])
        ensures r@ == self.key_spec(),
    { unimplemented!() }
}

// The cursor over one bucket: `entries()` are the bucket's keys in ascending order, `pos()` the current slot.
pub struct Cursor<'b, 'tx> {
    pub next_called: bool,
    pub _rest: core::marker::PhantomData<(&'b (), &'tx ())>,
    pub ghost_entries: Ghost<Seq<Seq<u8>>>,
    pub ghost_pos: Ghost<int>,
}
impl<'b, 'tx> Cursor<'b, 'tx> {
    pub open spec fn entries(&self) -> Seq<Seq<u8>> { self.ghost_entries@ }
    pub open spec fn pos(&self) -> int { self.ghost_pos@ }
    pub open spec fn wf(&self) -> bool {
        &&& keys_ascending(self.entries())
        &&& 0 <= self.pos()
        &&& (self.pos() < self.entries().len() || self.entries().len() == 0 && self.pos() == 0)
    }
    // seek: reports whether the key exists and stops at it, or "just before where it would be"
    #[verifier::external_body]
    pub fn seek(&mut self, key: &[u8]) -> (r: bool)
        requires old(self).wf(),
        ensures
            final(self).wf(), final(self).entries() == old(self).entries(), !final(self).next_called,
            r == old(self).entries().contains(key@),
            r ==> final(self).entries()[final(self).pos()] == key@,
            !r && final(self).entries().len() > 0 ==> {
                let e = final(self).entries(); let p = final(self).pos();
                &&& forall|j: int| p < j < e.len() ==> slice_lt::<u8>(key@, #[trigger] e[j])
                &&& (p > 0 ==> slice_lt::<u8>(e[p], key@))
            },
    { unimplemented!() }
    #[verifier::external_body]
    pub fn current(&self) -> (r: Option<Data<'b, 'tx>>)
        requires self.wf(),
        ensures
            self.entries().len() == 0 ==> r is None,
            self.entries().len() > 0 ==> (r matches Some(d) && d.key_spec() == self.entries()[self.pos()]),
    { unimplemented!() }
    // next: the first call after creation or after a seek yields the current slot; later calls advance;
    // calling again after the end is harmless
    #[verifier::external_body]
    pub fn next(&mut self) -> (r: Option<Data<'b, 'tx>>)
        requires old(self).wf(),
        ensures
            final(self).wf(), final(self).entries() == old(self).entries(), final(self).next_called,
            !old(self).next_called ==> final(self).pos() == old(self).pos()
                && (old(self).entries().len() == 0 ==> r is None)
                && (old(self).entries().len() > 0 ==> (r matches Some(d) && d.key_spec() == old(self).entries()[old(self).pos()])),
            old(self).next_called && old(self).pos() + 1 < old(self).entries().len() ==> final(self).pos() == old(self).pos() + 1
                && (r matches Some(d) && d.key_spec() == old(self).entries()[old(self).pos() + 1]),
            old(self).next_called && old(self).pos() + 1 >= old(self).entries().len() ==> final(self).pos() == old(self).pos() && r is None,
    { unimplemented!() }
}

// the implementation of RangeBounds agrees with its vstd specification (true of every std range type and of (Bound, Bound))
spec fn bounds_obey<'r, R: RangeBounds<&'r [u8]>>(b: &R) -> bool {
    &&& forall|r: Bound<&&'r [u8]>| call_ensures(<R as RangeBounds<&'r [u8]>>::start_bound, (b,), r) ==> r == b.spec_start_bound()
    &&& forall|r: Bound<&&'r [u8]>| call_ensures(<R as RangeBounds<&'r [u8]>>::end_bound, (b,), r) ==> r == b.spec_end_bound()
}
spec fn lower_ok<'r>(b: Bound<&&'r [u8]>, k: Seq<u8>) -> bool {
    match b { Bound::Included(s) => !slice_lt::<u8>(k, (**s)@), Bound::Excluded(s) => slice_lt::<u8>((**s)@, k), Bound::Unbounded => true }
}
spec fn upper_ok<'r>(b: Bound<&&'r [u8]>, k: Seq<u8>) -> bool {
    match b { Bound::Included(e) => !slice_lt::<u8>((**e)@, k), Bound::Excluded(e) => slice_lt::<u8>(k, (**e)@), Bound::Unbounded => true }
}
