// ---- prelude/cursor_contract.rs: the documented semantics of Cursor as an ASSUMED contract (unit R1 is relative to it) ----
// Key order: byte strings compared lexicographically by std; vstd gives slice comparison no meaning, so it is an
// uninterpreted strict total order (laws below are assumed).
//@include prelude/keyorder.rs
pub open spec fn keys_ascending(e: Seq<Seq<u8>>) -> bool {
    forall|i: int, j: int| 0 <= i < j < e.len() ==> slice_lt::<u8>(#[trigger] e[i], #[trigger] e[j])
}

#[verifier::external_body]
pub struct Data<'b, 'tx> { _p: core::marker::PhantomData<(&'b (), &'tx ())> }
impl<'b, 'tx> Data<'b, 'tx> {
    pub uninterp spec fn key_spec(&self) -> Seq<u8>;
    #[verifier::external_body]
    pub fn key(&self) -> (r: &[u8])
        ensures r@ == self.key_spec(),
    { unimplemented!() }
}

// The cursor over one bucket, as an abstraction of the REAL struct: `c_entries(c)` are the bucket's keys in ascending
// order, `c_pos(c)` the slot the cursor stands on.  Both are uninterpreted functions of the whole Cursor value, so code
// that manipulates a cursor's fields directly (instead of through seek/current/next) loses every fact about them.
pub uninterp spec fn c_entries(c: Cursor) -> Seq<Seq<u8>>;
pub uninterp spec fn c_pos(c: Cursor) -> int;
pub uninterp spec fn asref_view<T>(k: T) -> Seq<u8>;
#[verifier::external_body]
pub proof fn axiom_asref_slice()
    ensures forall|s: &[u8]| #[trigger] asref_view::<&[u8]>(s) == s@,
{
}
spec fn c_wf(c: Cursor) -> bool {
    &&& keys_ascending(c_entries(c))
    &&& 0 <= c_pos(c)
    &&& (c_pos(c) < c_entries(c).len() || c_entries(c).len() == 0 && c_pos(c) == 0)
}
impl<'b, 'tx> Cursor<'b, 'tx> {
    // seek: reports whether the key exists and stops at it, or "just before where it would be"
    #[verifier::external_body]
    fn seek<T: AsRef<[u8]>>(&mut self, key: T) -> (r: bool)
        requires c_wf(*old(self)),
        ensures
            c_wf(*final(self)), c_entries(*final(self)) == c_entries(*old(self)), !final(self).next_called,
            r == c_entries(*old(self)).contains(asref_view(key)),
            r ==> c_entries(*final(self))[c_pos(*final(self))] == asref_view(key),
            !r && c_entries(*final(self)).len() > 0 ==> {
                let e = c_entries(*final(self)); let p = c_pos(*final(self));
                &&& forall|j: int| p < j < e.len() ==> slice_lt::<u8>(asref_view(key), #[trigger] e[j])
                &&& (p > 0 ==> slice_lt::<u8>(e[p], asref_view(key)))
            },
    { unimplemented!() }
    #[verifier::external_body]
    fn current<'a>(&'a self) -> (r: Option<Data<'b, 'tx>>)
        requires c_wf(*self),
        ensures
            c_entries(*self).len() == 0 ==> r is None,
            c_entries(*self).len() > 0 ==> (r matches Some(d) && d.key_spec() == c_entries(*self)[c_pos(*self)]),
    { unimplemented!() }
    // next: the first call after creation or after a seek yields the current slot; later calls advance;
    // calling again after the end is harmless
    #[verifier::external_body]
    fn next(&mut self) -> (r: Option<Data<'b, 'tx>>)
        requires c_wf(*old(self)),
        ensures
            c_wf(*final(self)), c_entries(*final(self)) == c_entries(*old(self)), final(self).next_called,
            !old(self).next_called ==> c_pos(*final(self)) == c_pos(*old(self))
                && (c_entries(*old(self)).len() == 0 ==> r is None)
                && (c_entries(*old(self)).len() > 0 ==> (r matches Some(d) && d.key_spec() == c_entries(*old(self))[c_pos(*old(self))])),
            old(self).next_called && c_pos(*old(self)) + 1 < c_entries(*old(self)).len() ==> c_pos(*final(self)) == c_pos(*old(self)) + 1
                && (r matches Some(d) && d.key_spec() == c_entries(*old(self))[c_pos(*old(self)) + 1]),
            old(self).next_called && c_pos(*old(self)) + 1 >= c_entries(*old(self)).len() ==> c_pos(*final(self)) == c_pos(*old(self)) && r is None,
    { unimplemented!() }
}

// the implementation of RangeBounds agrees with its vstd specification (true of every std range type and of (Bound, Bound))
spec fn bounds_obey<'r, R: RangeBounds<&'r [u8]>>(b: &R) -> bool {
    &&& forall|r: Bound<&&'r [u8]>| call_ensures(<R as RangeBounds<&'r [u8]>>::start_bound, (b,), r) ==> r == b.spec_start_bound()
    &&& forall|r: Bound<&&'r [u8]>| call_ensures(<R as RangeBounds<&'r [u8]>>::end_bound, (b,), r) ==> r == b.spec_end_bound()
}
spec fn lower_ok<'r>(b: Bound<&&'r [u8]>, k: Seq<u8>) -> bool {
    match b { Bound::Included(s) => !slice_lt::<u8>(k, (**s)@), Bound::Excluded(s) => slice_lt::<u8>((**s)@, k), Bound::Unbounded => true }
}
spec fn upper_ok<'r>(b: Bound<&&'r [u8]>, k: Seq<u8>) -> bool {
    match b { Bound::Included(e) => !slice_lt::<u8>((**e)@, k), Bound::Excluded(e) => slice_lt::<u8>(k, (**e)@), Bound::Unbounded => true }
}
