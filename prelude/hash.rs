// ---- prelude/hash.rs: big-endian encoding and the FNV-1a hasher (assumed contracts) ----

// big-endian digits
pub open spec fn be32(x: u32) -> Seq<u8> {
    seq![(x >> 24) as u8, (x >> 16) as u8, (x >> 8) as u8, x as u8]
}
pub open spec fn be64(x: u64) -> Seq<u8> {
    seq![(x >> 56) as u8, (x >> 48) as u8, (x >> 40) as u8, (x >> 32) as u8,
         (x >> 24) as u8, (x >> 16) as u8, (x >> 8) as u8, x as u8]
}

// rule R5: `X.to_be_bytes()` -> `X.to_be_bytes_v()` (the const-generic return type of the std method
// cannot be named in an assume_specification).  Assumed: the std method yields the big-endian digits.
pub trait ToBeBytesV<const N: usize> {
    spec fn be_spec(&self) -> Seq<u8>;
    fn to_be_bytes_v(&self) -> (r: [u8; N])
        ensures r@ == self.be_spec();
}
impl ToBeBytesV<4> for u32 {
    open spec fn be_spec(&self) -> Seq<u8> { be32(*self) }
    #[verifier::external_body]
    fn to_be_bytes_v(&self) -> (r: [u8; 4]) { self.to_be_bytes() }
}
impl ToBeBytesV<8> for u64 {
    open spec fn be_spec(&self) -> Seq<u8> { be64(*self) }
    #[verifier::external_body]
    fn to_be_bytes_v(&self) -> (r: [u8; 8]) { self.to_be_bytes() }
}

// FNV-1a, 64 bit: the executable-spec definition (offset basis 0xcbf29ce484222325, prime 0x100000001b3)
pub open spec fn fnv_step(h: u64, b: u8) -> u64 {
    ((h ^ (b as u64)) as u64).wrapping_mul(0x100000001b3u64)
}
pub open spec fn fnv1a_from(h: u64, s: Seq<u8>) -> u64
    decreases s.len()
{
    if s.len() == 0 { h } else { fnv1a_from(fnv_step(h, s[0]), s.subrange(1, s.len() as int)) }
}
pub open spec fn fnv1a(s: Seq<u8>) -> u64 { fnv1a_from(0xcbf29ce484222325u64, s) }

// stand-in for fnv::FnvHasher (external crate): its view is the byte string written so far.
// ASSUMPTION H0: the `fnv` crate implements FNV-1a, i.e. finish() == fnv1a(bytes written).
#[verifier::external_body]
pub struct FnvHasher { _private: () }
impl FnvHasher {
    pub uninterp spec fn written(&self) -> Seq<u8>;
    #[verifier::external_body]
    pub fn default() -> (r: FnvHasher)
        ensures r.written() == Seq::<u8>::empty(),
    { unimplemented!() }
    #[verifier::external_body]
    pub fn write(&mut self, bytes: &[u8])
        ensures final(self).written() == old(self).written() + bytes@,
    { unimplemented!() }
    #[verifier::external_body]
    pub fn finish(&self) -> (r: u64)
        ensures r == fnv1a(self.written()),
    { unimplemented!() }
}

// ---- M1-sens: FNV-1a sensitivity lemmas (proved, not assumed) ----
// multiplication by the FNV prime is invertible mod 2^64 (inverse 0xce965057aff6957b)
proof fn lemma_mul_inv(x: u64, y: u64)
    ensures x.wrapping_mul(0x100000001b3u64) == y.wrapping_mul(0x100000001b3u64) ==> x == y,
{
    let a = x.wrapping_mul(0x100000001b3u64);
    let b = y.wrapping_mul(0x100000001b3u64);
    let xx: u128 = (x as u128 * 0x100000001b3u128) as u128;
    let yy: u128 = (y as u128 * 0x100000001b3u128) as u128;
    assert(xx == x * 0x100000001b3u64) by(nonlinear_arith) requires xx == (x as u128 * 0x100000001b3u128) as u128, x <= u64::MAX;
    assert(yy == y * 0x100000001b3u64) by(nonlinear_arith) requires yy == (y as u128 * 0x100000001b3u128) as u128, y <= u64::MAX;
    assert(a == (xx % 0x1_0000_0000_0000_0000u128) as u64);
    assert(b == (yy % 0x1_0000_0000_0000_0000u128) as u64);
    assert(((((a as u128) * 0xce965057aff6957bu128) as u128) % 0x1_0000_0000_0000_0000u128) as u64 == x) by(bit_vector)
        requires xx == (x as u128 * 0x100000001b3u128) as u128, a == (xx % 0x1_0000_0000_0000_0000u128) as u64;
    assert(((((b as u128) * 0xce965057aff6957bu128) as u128) % 0x1_0000_0000_0000_0000u128) as u64 == y) by(bit_vector)
        requires yy == (y as u128 * 0x100000001b3u128) as u128, b == (yy % 0x1_0000_0000_0000_0000u128) as u64;
}
proof fn lemma_xor_inj(h: u64, b1: u8, b2: u8)
    ensures (h ^ (b1 as u64)) == (h ^ (b2 as u64)) ==> b1 == b2,
{
    assert((h ^ (b1 as u64)) == (h ^ (b2 as u64)) ==> b1 == b2) by(bit_vector);
}
proof fn lemma_xor_inj_h(h1: u64, h2: u64, b: u8)
    ensures (h1 ^ (b as u64)) == (h2 ^ (b as u64)) ==> h1 == h2,
{
    assert((h1 ^ (b as u64)) == (h2 ^ (b as u64)) ==> h1 == h2) by(bit_vector);
}
// one FNV-1a step is injective in the state (fixed byte) and in the byte (fixed state)
proof fn lemma_step_inj(h1: u64, h2: u64, b1: u8, b2: u8)
    ensures
        b1 == b2 && fnv_step(h1, b1) == fnv_step(h2, b2) ==> h1 == h2,
        h1 == h2 && fnv_step(h1, b1) == fnv_step(h2, b2) ==> b1 == b2,
{
    lemma_mul_inv((h1 ^ (b1 as u64)) as u64, (h2 ^ (b2 as u64)) as u64);
    lemma_xor_inj(h1, b1, b2);
    lemma_xor_inj_h(h1, h2, b1);
}
// different states stay different over any common suffix
proof fn lemma_from_inj(h1: u64, h2: u64, s: Seq<u8>)
    requires h1 != h2,
    ensures fnv1a_from(h1, s) != fnv1a_from(h2, s),
    decreases s.len(),
{
    if s.len() > 0 {
        lemma_step_inj(h1, h2, s[0], s[0]);
        lemma_from_inj(fnv_step(h1, s[0]), fnv_step(h2, s[0]), s.subrange(1, s.len() as int));
    }
}
// M1-sens: two byte strings of equal length that differ in exactly one position hash differently
proof fn lemma_fnv_one_byte(h: u64, s1: Seq<u8>, s2: Seq<u8>, i: int)
    requires
        s1.len() == s2.len(), 0 <= i < s1.len(), s1[i] != s2[i],
        forall|j: int| 0 <= j < s1.len() && j != i ==> s1[j] == s2[j],
    ensures fnv1a_from(h, s1) != fnv1a_from(h, s2),
    decreases s1.len(),
{
    let t1 = s1.subrange(1, s1.len() as int);
    let t2 = s2.subrange(1, s2.len() as int);
    if i == 0 {
        lemma_step_inj(h, h, s1[0], s2[0]);
        assert(t1 =~= t2);
        lemma_from_inj(fnv_step(h, s1[0]), fnv_step(h, s2[0]), t1);
    } else {
        assert(s1[0] == s2[0]);
        lemma_fnv_one_byte(fnv_step(h, s1[0]), t1, t2, i - 1);
    }
}
