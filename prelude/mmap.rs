// ---- prelude/mmap.rs: the memory map and the page views into it (assumed contracts; stubs U2) ----
// stand-in for memmap2::Mmap: its view is the mapped file's bytes
#[verifier::external_body]
pub struct Mmap { _private: () }
impl Mmap {
    pub uninterp spec fn view(&self) -> Seq<u8>;
    // memmap2: Deref<Target = [u8]>, so `len()` is the length of the mapped bytes
    #[verifier::external_body]
    pub fn len(&self) -> (r: usize)
        ensures r == self@.len(),
    { unimplemented!() }
}

// the page header at byte offset id * pagesize of the map, and the header records that follow it.
// ASSUMPTION (layout, checked by Kani unit K1 on the real casts): these are functions of the bytes.
pub uninterp spec fn page_view(bytes: Seq<u8>, id: int, pagesize: int) -> Page;
pub uninterp spec fn meta_view(bytes: Seq<u8>, id: int, pagesize: int) -> Meta;
pub uninterp spec fn old_meta_view(bytes: Seq<u8>, id: int, pagesize: int) -> OldMeta;
// ghost back-link from a page view to where it was taken from
pub uninterp spec fn page_src(p: &Page) -> (Seq<u8>, int, int);

// stub U2: `Page::from_buf(&data, id, pagesize)` on the locked map.
// requires = the alignment/bounds precondition that Kani unit K4 derives for the real cast.
#[verifier::external_body]
fn page_at<'a>(data: &'a MutexGuard<'_, Arc<Mmap>>, id: PageID, pagesize: u64) -> (r: &'a Page)
    requires
        (id * pagesize) % 8 == 0,
        id * pagesize + 40 <= (*data@)@.len(),
    ensures
        *r == page_view((*data@)@, id as int, pagesize as int),
        page_src(r) == ((*data@)@, id as int, pagesize as int),
{ unimplemented!() }

// stubs U6/U7: the unsafe casts inside Page::meta / Page::old_meta
#[verifier::external_body]
fn page_meta_cast<'a>(p: &'a Page) -> (r: &'a Meta)
    ensures *r == meta_view(page_src(p).0, page_src(p).1, page_src(p).2),
{ unimplemented!() }
#[verifier::external_body]
fn page_old_meta_cast<'a>(p: &'a Page) -> (r: &'a OldMeta)
    ensures *r == old_meta_view(page_src(p).0, page_src(p).1, page_src(p).2),
{ unimplemented!() }
