// ---- prelude/cursor_lookup.rs: a search finds a key exactly when the tree holds it (all DEFINITIONS and PROVED lemmas) ----
// Over the abstract tree of prelude/cursor_tree.rs plus the key of every slot.  Hypotheses of the theorem, each named:
//   * slot_rule(t):  what one node's binary search answers (PROVED per node on the real PageNode::index, unit pagenode:
//                    #index-in-range, #empty-node, #exact-hit, #slot-before, #absent-when-not-exact)
//   * bst(t, root, None, None): the tree is a search tree (separators ascending, child c holds keys in [key_c, key_{c+1}), the
//                    first child anything below key_1): structural soundness of the state read, C05
//   * keys_canon(t): a node named by its page or by its in-memory id has the same keys
// and the facts `search` is PROVED to establish for the path it returns (contracts/fn/search.contract).
pub uninterp spec fn node_key(t: int, id: PageNodeID, i: int) -> Seq<u8>;
spec fn klt(a: Seq<u8>, b: Seq<u8>) -> bool { slice_lt::<u8>(a, b) }
spec fn kle(a: Seq<u8>, b: Seq<u8>) -> bool { a == b || slice_lt::<u8>(a, b) }
spec fn above(lo: Option<Seq<u8>>, k: Seq<u8>) -> bool { lo matches Some(l) ==> kle(l, k) }
spec fn below(hi: Option<Seq<u8>>, k: Seq<u8>) -> bool { hi matches Some(h) ==> klt(k, h) }

spec fn slot_rule(t: int) -> bool {
    forall|id: PageNodeID, k: Seq<u8>| #![trigger node_slot(t, id, k)] {
        let s = node_slot(t, id, k) as int;
        let n = node_len(t, id) as int;
        &&& (n > 0 ==> s < n)
        &&& (n == 0 ==> s == 0 && !node_exact(t, id, k))
        &&& (node_exact(t, id, k) ==> node_key(t, id, s) == k)
        &&& (!node_exact(t, id, k) ==> (forall|j: int| 0 <= j < n ==> #[trigger] node_key(t, id, j) != k))
        &&& (!node_exact(t, id, k) ==> (forall|j: int| s < j < n ==> klt(k, #[trigger] node_key(t, id, j))))
        &&& (!node_exact(t, id, k) && s > 0 ==> klt(node_key(t, id, s), k))
    }
}
spec fn keys_canon(t: int) -> bool {
    forall|id: PageNodeID, i: int| #![trigger node_key(t, node_canon(t, id), i)] node_key(t, node_canon(t, id), i) == node_key(t, id, i)
}
spec fn sep_lo(t: int, id: PageNodeID, c: int, lo: Option<Seq<u8>>) -> Option<Seq<u8>> {
    if c == 0 { lo } else { Some(node_key(t, id, c)) }
}
spec fn sep_hi(t: int, id: PageNodeID, c: int, hi: Option<Seq<u8>>) -> Option<Seq<u8>> {
    if c + 1 < node_len(t, id) { Some(node_key(t, id, c + 1)) } else { hi }
}
// the subtree of `id` is a search tree whose keys lie in [lo, hi)
#[verifier::opaque]
spec fn bst(t: int, id: PageNodeID, lo: Option<Seq<u8>>, hi: Option<Seq<u8>>) -> bool
    decreases node_height(t, id),
{
    tree_ok(t) && (if node_leaf(t, id) {
        &&& forall|i: int| 0 <= i < node_len(t, id) ==> above(lo, #[trigger] node_key(t, id, i)) && below(hi, node_key(t, id, i))
        &&& forall|c: int, d: int| 0 <= c < d < node_len(t, id) ==> klt(#[trigger] node_key(t, id, c), #[trigger] node_key(t, id, d))
    } else {
        &&& forall|c: int, d: int| 0 <= c < d < node_len(t, id) ==> klt(#[trigger] node_key(t, id, c), #[trigger] node_key(t, id, d))
        &&& forall|c: int| 1 <= c < node_len(t, id) ==> above(lo, #[trigger] node_key(t, id, c)) && below(hi, node_key(t, id, c))
        &&& forall|c: int| 0 <= c < node_len(t, id) ==> bst(t, #[trigger] child_id(t, id, c), sep_lo(t, id, c, lo), sep_hi(t, id, c, hi))
    })
}
// the key occurs in the subtree of `id`
#[verifier::opaque]
spec fn in_subtree(t: int, id: PageNodeID, k: Seq<u8>) -> bool
    decreases node_height(t, id),
{
    tree_ok(t) && (if node_leaf(t, id) {
        exists|i: int| 0 <= i < node_len(t, id) && #[trigger] node_key(t, id, i) == k
    } else {
        exists|c: int| 0 <= c < node_len(t, id) && in_subtree(t, #[trigger] child_id(t, id, c), k)
    })
}

proof fn lemma_canon_lookup(t: int, id: PageNodeID, k: Seq<u8>, lo: Option<Seq<u8>>, hi: Option<Seq<u8>>)
    requires tree_ok(t), keys_canon(t),
    ensures
        in_subtree(t, node_canon(t, id), k) == in_subtree(t, id, k),
        bst(t, node_canon(t, id), lo, hi) == bst(t, id, lo, hi),
{
    reveal_with_fuel(in_subtree, 2); reveal_with_fuel(bst, 2);
    let c = node_canon(t, id);
    assert(node_len(t, c) == node_len(t, id) && node_leaf(t, c) == node_leaf(t, id));
    assert forall|i: int| node_key(t, c, i) == node_key(t, id, i) by {}
    assert forall|i: int| child_id(t, c, i) == child_id(t, id, i) by { assert(node_child(t, c, i) == node_child(t, id, i)); }
    assert forall|i: int| sep_lo(t, c, i, lo) == sep_lo(t, id, i, lo) && sep_hi(t, c, i, hi) == sep_hi(t, id, i, hi) by {}
    if node_leaf(t, id) {
        if in_subtree(t, id, k) { let i = choose|i: int| 0 <= i < node_len(t, id) && #[trigger] node_key(t, id, i) == k; assert(node_key(t, c, i) == k); }
        if in_subtree(t, c, k) { let i = choose|i: int| 0 <= i < node_len(t, c) && #[trigger] node_key(t, c, i) == k; assert(node_key(t, id, i) == k); }
    } else {
        if in_subtree(t, id, k) { let j = choose|j: int| 0 <= j < node_len(t, id) && in_subtree(t, #[trigger] child_id(t, id, j), k); assert(in_subtree(t, child_id(t, c, j), k)); }
        if in_subtree(t, c, k) { let j = choose|j: int| 0 <= j < node_len(t, c) && in_subtree(t, #[trigger] child_id(t, c, j), k); assert(in_subtree(t, child_id(t, id, j), k)); }
    }
}
proof fn lemma_same_node_lookup(t: int, a: PageNodeID, b: PageNodeID, k: Seq<u8>, lo: Option<Seq<u8>>, hi: Option<Seq<u8>>)
    requires tree_ok(t), keys_canon(t), same_node(t, a, b),
    ensures in_subtree(t, a, k) == in_subtree(t, b, k), bst(t, a, lo, hi) == bst(t, b, lo, hi),
{
    if a != b { lemma_canon_lookup(t, b, k, lo, hi); }
}
// every key of a search subtree lies inside the subtree's bounds
proof fn lemma_subtree_bounds(t: int, id: PageNodeID, lo: Option<Seq<u8>>, hi: Option<Seq<u8>>, k: Seq<u8>)
    requires bst(t, id, lo, hi), in_subtree(t, id, k),
    ensures above(lo, k), below(hi, k),
    decreases node_height(t, id),
{
    reveal_with_fuel(in_subtree, 2); reveal_with_fuel(bst, 2);
    axiom_key_order();
    if node_leaf(t, id) {
        let i = choose|i: int| 0 <= i < node_len(t, id) && #[trigger] node_key(t, id, i) == k;
    } else {
        let c = choose|c: int| 0 <= c < node_len(t, id) && in_subtree(t, #[trigger] child_id(t, id, c), k);
        assert(bst(t, child_id(t, id, c), sep_lo(t, id, c, lo), sep_hi(t, id, c, hi)));
        assert(node_height(t, child_id(t, id, c)) < node_height(t, id));
        lemma_subtree_bounds(t, child_id(t, id, c), sep_lo(t, id, c, lo), sep_hi(t, id, c, hi), k);
        if c >= 1 { assert(above(lo, node_key(t, id, c))); }
        if c + 1 < node_len(t, id) { assert(below(hi, node_key(t, id, c + 1))); }
    }
}
// one step of the descent: the key is below a branch exactly when it is below the child the branch's slot for the key names
proof fn lemma_descend(t: int, id: PageNodeID, lo: Option<Seq<u8>>, hi: Option<Seq<u8>>, k: Seq<u8>)
    requires tree_ok(t), slot_rule(t), bst(t, id, lo, hi), !node_leaf(t, id),
    ensures
        node_slot(t, id, k) < node_len(t, id),
        in_subtree(t, id, k) == in_subtree(t, child_id(t, id, node_slot(t, id, k) as int), k),
        bst(t, child_id(t, id, node_slot(t, id, k) as int), sep_lo(t, id, node_slot(t, id, k) as int, lo), sep_hi(t, id, node_slot(t, id, k) as int, hi)),
{
    reveal_with_fuel(in_subtree, 2); reveal_with_fuel(bst, 2);
    axiom_key_order();
    let s = node_slot(t, id, k) as int;
    let n = node_len(t, id) as int;
    assert(n > 0);
    assert(s < n);
    if in_subtree(t, id, k) {
        let c = choose|c: int| 0 <= c < n && in_subtree(t, #[trigger] child_id(t, id, c), k);
        assert(bst(t, child_id(t, id, c), sep_lo(t, id, c, lo), sep_hi(t, id, c, hi)));
        lemma_subtree_bounds(t, child_id(t, id, c), sep_lo(t, id, c, lo), sep_hi(t, id, c, hi), k);
        if c < s {
            // k < key_{c+1} <= key_s <= k
            assert(klt(k, node_key(t, id, c + 1)));
            if c + 1 < s { assert(klt(node_key(t, id, c + 1), node_key(t, id, s))); }
            assert(kle(node_key(t, id, s), k));
            assert(false);
        }
        if c > s {
            // key_c <= k, but the key sorts before every slot after s
            assert(kle(node_key(t, id, c), k));
            if node_exact(t, id, k) { assert(klt(node_key(t, id, s), node_key(t, id, c))); } else { assert(klt(k, node_key(t, id, c))); }
            assert(false);
        }
        assert(c == s);
    }
    if in_subtree(t, child_id(t, id, s), k) { assert(in_subtree(t, id, k)); }
}
// THEOREM: for the path `search` returns (every level on the slot its node answers for the key, ending on a leaf), the exact-hit
// flag of the last node says whether the tree holds the key
proof fn lemma_search_finds_iff_present(t: int, root: u64, st: Seq<SearchPath>, k: Seq<u8>, j: int, lo: Option<Seq<u8>>, hi: Option<Seq<u8>>)
    requires
        tree_ok(t), slot_rule(t), keys_canon(t),
        path_ok(t, root, st), lands_on_leaf(t, st),
        forall|i: int| 0 <= i < st.len() ==> (#[trigger] st[i]).index == node_slot(t, st[i].id, k),
        0 <= j < st.len(), bst(t, st[j].id, lo, hi),
    ensures
        in_subtree(t, st[j].id, k) == node_exact(t, st.last().id, k),
    decreases st.len() - j,
{
    reveal(path_ok);
    let id = st[j].id;
    if j == st.len() - 1 {
        reveal_with_fuel(in_subtree, 2);
        let s = node_slot(t, id, k) as int;
        if node_exact(t, id, k) { assert(node_len(t, id) > 0); assert(node_key(t, id, s) == k); }
        if in_subtree(t, id, k) { let i = choose|i: int| 0 <= i < node_len(t, id) && #[trigger] node_key(t, id, i) == k; }
    } else {
        assert(!node_leaf(t, id));
        lemma_descend(t, id, lo, hi, k);
        let s = st[j].index as int;
        let ch = child_id(t, id, s);
        assert(same_node(t, st[j + 1].id, ch));
        lemma_same_node_lookup(t, st[j + 1].id, ch, k, sep_lo(t, id, s, lo), sep_hi(t, id, s, hi));
        lemma_search_finds_iff_present(t, root, st, k, j + 1, sep_lo(t, id, s, lo), sep_hi(t, id, s, hi));
    }
}
// corollary at the root: what `search` reports is membership in the whole tree
proof fn theorem_search_is_membership(t: int, root: u64, st: Seq<SearchPath>, k: Seq<u8>, found: bool)
    requires
        tree_ok(t), slot_rule(t), keys_canon(t), bst(t, PageNodeID::Page(root), None, None),
        // the postconditions of `search` (contracts/fn/search.contract)
        path_ok(t, root, st), lands_on_leaf(t, st),
        forall|i: int| 0 <= i < st.len() ==> (#[trigger] st[i]).index == node_slot(t, st[i].id, k),
        found == node_exact(t, st.last().id, k),
    ensures
        found == in_subtree(t, PageNodeID::Page(root), k),
{
    reveal(path_ok);
    lemma_same_node_lookup(t, st[0].id, PageNodeID::Page(root), k, None, None);
    lemma_search_finds_iff_present(t, root, st, k, 0, None, None);
}

// ORDER around the path (what C08 says about seek): at every level of the path `search` returns, everything that hangs to the
// LEFT of the path is smaller than the key and everything to the RIGHT is greater; on the leaf the same holds for the slots
// beside the one landed on.  Together with R2-full (iteration visits positions in in-order numbering, prelude/cursor_order.rs)
// this is "every later entry follows in order, the entry under the cursor is the key or an immediate neighbour".
spec fn left_right_of_slot(t: int, id: PageNodeID, s: int, k: Seq<u8>) -> bool {
    if node_leaf(t, id) {
        forall|i: int| 0 <= i < node_len(t, id) && i != s ==> (if i < s { klt(#[trigger] node_key(t, id, i), k) } else { klt(k, node_key(t, id, i)) })
    } else {
        forall|c: int, x: Seq<u8>| 0 <= c < node_len(t, id) && c != s && #[trigger] in_subtree(t, child_id(t, id, c), x)
            ==> (if c < s { klt(x, k) } else { klt(k, x) })
    }
}
proof fn lemma_slot_separates(t: int, id: PageNodeID, lo: Option<Seq<u8>>, hi: Option<Seq<u8>>, k: Seq<u8>)
    requires tree_ok(t), slot_rule(t), bst(t, id, lo, hi),
    ensures left_right_of_slot(t, id, node_slot(t, id, k) as int, k),
{
    reveal_with_fuel(bst, 2);
    axiom_key_order();
    let s = node_slot(t, id, k) as int;
    let n = node_len(t, id) as int;
    if node_leaf(t, id) {
        assert forall|i: int| 0 <= i < n && i != s implies (if i < s { klt(#[trigger] node_key(t, id, i), k) } else { klt(k, node_key(t, id, i)) }) by {
            if i < s { assert(klt(node_key(t, id, i), node_key(t, id, s))); assert(kle(node_key(t, id, s), k)); }
            else { if node_exact(t, id, k) { assert(klt(node_key(t, id, s), node_key(t, id, i))); } }
        }
    } else {
        assert forall|c: int, x: Seq<u8>| 0 <= c < n && c != s && #[trigger] in_subtree(t, child_id(t, id, c), x)
            implies (if c < s { klt(x, k) } else { klt(k, x) }) by {
            assert(bst(t, child_id(t, id, c), sep_lo(t, id, c, lo), sep_hi(t, id, c, hi)));
            lemma_subtree_bounds(t, child_id(t, id, c), sep_lo(t, id, c, lo), sep_hi(t, id, c, hi), x);
            if c < s {
                assert(klt(x, node_key(t, id, c + 1)));
                if c + 1 < s { assert(klt(node_key(t, id, c + 1), node_key(t, id, s))); }
                assert(kle(node_key(t, id, s), k));
            } else {
                assert(kle(node_key(t, id, c), x));
                if node_exact(t, id, k) { assert(klt(node_key(t, id, s), node_key(t, id, c))); } else { assert(klt(k, node_key(t, id, c))); }
            }
        }
    }
}
// along the whole path: every level separates (by induction down the path, carrying the bounds)
proof fn theorem_path_separates(t: int, root: u64, st: Seq<SearchPath>, k: Seq<u8>, j: int, lo: Option<Seq<u8>>, hi: Option<Seq<u8>>)
    requires
        tree_ok(t), slot_rule(t), keys_canon(t),
        path_ok(t, root, st), lands_on_leaf(t, st),
        forall|i: int| 0 <= i < st.len() ==> (#[trigger] st[i]).index == node_slot(t, st[i].id, k),
        0 <= j < st.len(), bst(t, st[j].id, lo, hi),
    ensures
        forall|m: int| j <= m < st.len() ==> left_right_of_slot(t, (#[trigger] st[m]).id, st[m].index as int, k),
    decreases st.len() - j,
{
    reveal(path_ok);
    let id = st[j].id;
    lemma_slot_separates(t, id, lo, hi, k);
    if j < st.len() - 1 {
        assert(!node_leaf(t, id));
        lemma_descend(t, id, lo, hi, k);
        let s = st[j].index as int;
        let ch = child_id(t, id, s);
        assert(same_node(t, st[j + 1].id, ch));
        lemma_same_node_lookup(t, st[j + 1].id, ch, k, sep_lo(t, id, s, lo), sep_hi(t, id, s, hi));
        theorem_path_separates(t, root, st, k, j + 1, sep_lo(t, id, s, lo), sep_hi(t, id, s, hi));
    }
}

// ---- ORDER: "left of the path" means "smaller in-order number" (the step that joins theorem_path_separates to R2-full) ----
proof fn lemma_prefix_mono(t: int, id: PageNodeID, a: nat, b: nat)
    requires tree_ok(t), !node_leaf(t, id), a <= b <= node_len(t, id),
    ensures prefix(t, id, a) <= prefix(t, id, b),
    decreases b - a,
{
    if a < b {
        lemma_prefix_step(t, id, (b - 1) as nat);
        lemma_prefix_mono(t, id, a, (b - 1) as nat);
    }
}
// what a path counts below level j (plus the entry it stands on, if any) never exceeds the size of the subtree at level j
proof fn lemma_below_bound(t: int, root: u64, st: Seq<SearchPath>, j: int)
    requires tree_ok(t), path_ok(t, root, st), stack_ok(t, st), lands_on_leaf(t, st), 0 <= j < st.len(),
    ensures sum_to(t, st, st.len() as int) - sum_to(t, st, j) + one_if(at_entry(t, st)) <= size(t, st[j].id),
    decreases st.len() - j,
{
    reveal(path_ok); reveal_with_fuel(size, 2); reveal_with_fuel(prefix, 2);
    let n = st.len() as int;
    let e = st[j];
    if j == n - 1 {
        assert(sum_to(t, st, n) == sum_to(t, st, n - 1) + contrib(t, st[n - 1]));
        assert(node_leaf(t, e.id));
    } else {
        lemma_below_bound(t, root, st, j + 1);
        let nx = st[j + 1];
        assert(!node_leaf(t, e.id) && same_node(t, nx.id, child_id(t, e.id, e.index as int)));
        assert(node_len(t, e.id) > 0);
        assert(e.index < node_len(t, e.id));
        lemma_same_node_size(t, nx.id, child_id(t, e.id, e.index as int));
        lemma_prefix_step(t, e.id, e.index as nat);
        lemma_prefix_mono(t, e.id, (e.index + 1) as nat, node_len(t, e.id));
        assert(sum_to(t, st, j + 1) == sum_to(t, st, j) + contrib(t, e));
        assert(size(t, e.id) == prefix(t, e.id, node_len(t, e.id)));
    }
}
// two paths from the same root that agree above level j and sit on the SAME node at level j, p on a smaller slot than s:
// the entry p stands on (if any) comes strictly before the position s denotes
proof fn lemma_left_is_before(t: int, root: u64, p: Seq<SearchPath>, s: Seq<SearchPath>, j: int)
    requires
        tree_ok(t), path_ok(t, root, p), stack_ok(t, p), lands_on_leaf(t, p), path_ok(t, root, s), stack_ok(t, s), lands_on_leaf(t, s),
        0 <= j < p.len(), j < s.len(),
        forall|i: int| 0 <= i < j ==> p[i] == s[i],
        p[j].id == s[j].id, p[j].index < s[j].index,
    ensures
        num(t, p) + one_if(at_entry(t, p)) <= num(t, s),
{
    reveal(num); reveal(path_ok); reveal_with_fuel(size, 2); reveal_with_fuel(prefix, 2);
    let id = p[j].id;
    lemma_sum_agree(t, p, s, j);
    lemma_below_bound(t, root, p, j);
    // num(s) >= what s counts up to and including level j
    lemma_sum_prefix_le(t, s, j + 1);
    assert(sum_to(t, s, j + 1) == sum_to(t, s, j) + contrib(t, s[j]));
    assert(sum_to(t, p, j + 1) == sum_to(t, p, j) + contrib(t, p[j]));
    if node_leaf(t, id) {
        // both end here: slots of one leaf
        assert(j == p.len() - 1) by { if j < p.len() - 1 { assert(!node_leaf(t, p[j].id)); } }
        assert(sum_to(t, p, p.len() as int) == sum_to(t, p, j + 1));
    } else {
        // below level j, p stays inside the child at its slot; s has at least all children up to its own slot before it
        assert(p.len() > j + 1) by { if p.len() == j + 1 { assert(node_leaf(t, p.last().id)); } }
        lemma_below_bound(t, root, p, j + 1);
        let nx = p[j + 1];
        assert(same_node(t, nx.id, child_id(t, id, p[j].index as int)));
        lemma_same_node_size(t, nx.id, child_id(t, id, p[j].index as int));
        assert(s[j].index < node_len(t, id) || (node_len(t, id) == 0 && s[j].index == 0));
        lemma_prefix_step(t, id, p[j].index as nat);
        lemma_prefix_mono(t, id, (p[j].index + 1) as nat, s[j].index as nat);
    }
}
proof fn lemma_sum_prefix_le(t: int, st: Seq<SearchPath>, m: int)
    requires 0 <= m <= st.len(),
    ensures sum_to(t, st, m) <= sum_to(t, st, st.len() as int),
    decreases st.len() - m,
{
    if m < st.len() { lemma_sum_prefix_le(t, st, m + 1); }
}
