// ---- prelude/pagemut.rs: in-memory page construction (stubs U3, U4, U11, U12; assumed contracts) ----
// A page under construction is a `&mut Page` into a byte buffer.  What lies behind the 40-byte header (the
// header record, the free-list entries) is modelled as ghost projections of the Page value; this is adequate
// for the straight-line "fill in, then write" uses in write_data / init_file and is listed as an assumption.
pub uninterp spec fn meta_rec(p: Page) -> Meta;
pub uninterp spec fn freelist_rec(p: Page) -> Seq<u64>;

// U11: the cast inside Page::meta_mut
#[verifier::external_body]
fn page_meta_cast_mut<'a>(p: &'a mut Page) -> (r: &'a mut Meta)
    ensures
        meta_rec(*final(p)) == *final(r),
        final(p).id == old(p).id && final(p).page_type == old(p).page_type
            && final(p).count == old(p).count && final(p).overflow == old(p).overflow,
{ unimplemented!() }

// U12: the cast inside Page::freelist_mut: `count` entries starting at the data offset
#[verifier::external_body]
fn page_freelist_cast_mut<'a>(p: &'a mut Page) -> (r: &'a mut [PageID])
    ensures
        r@.len() == old(p).count,
        freelist_rec(*final(p)) == final(r)@,
        final(p).id == old(p).id && final(p).page_type == old(p).page_type
            && final(p).count == old(p).count && final(p).overflow == old(p).overflow,
{ unimplemented!() }

// U4: `unsafe { &mut *(&mut buf[0] as *mut u8 as *mut Page) }` — the page header at the start of a byte buffer
// (the buffer comes from vec![0; pagesize]; alignment of Vec<u8> storage is the allocator's, see K-units)
#[verifier::external_body]
fn buf_page_mut<'a>(buf: &'a mut Vec<u8>) -> (r: &'a mut Page)
    requires old(buf)@.len() >= 40 + 72,
    ensures
        final(buf)@.len() == old(buf)@.len(),
        page_view(final(buf)@, 0, final(buf)@.len() as int).id == final(r).id,
        page_view(final(buf)@, 0, final(buf)@.len() as int).page_type == final(r).page_type,
        meta_view(final(buf)@, 0, final(buf)@.len() as int) == meta_rec(*final(r)),
{ unimplemented!() }

// U3: `unsafe { std::slice::from_raw_parts(ptr.as_ptr(), *size) }` — the bytes of an arena block
#[verifier::external_body]
fn arena_bytes<'a>(ptr: &NonNull<u8>, size: usize) -> (r: &'a [u8])
    requires blk_len(*ptr) >= size,
    ensures r@.len() == size,
{ unimplemented!() }


