// ---- prelude/split_spec.rs: what it means to cut a node into pieces (Node::split) ----
// ---- cutting ----
// `d` holds exactly the entries lo..hi of `d0`, in order (same kind of node)
spec fn nd_sub(d0: NodeData, lo: int, hi: int, d: NodeData) -> bool {
    match (d0, d) {
        (NodeData::Branches(o), NodeData::Branches(x)) => 0 <= lo <= hi <= o@.len() && x@ == o@.subrange(lo, hi),
        (NodeData::Leaves(o), NodeData::Leaves(x)) => 0 <= lo <= hi <= o@.len() && x@ == o@.subrange(lo, hi),
        _ => false,
    }
}
// cut points: at least `min` entries before the first, between two, and after the last
spec fn cuts_ok(c: Seq<usize>, len: int, min: int) -> bool {
    &&& forall|j: int| 0 <= j < c.len() ==> min <= #[trigger] c[j] && c[j] + min <= len
    &&& forall|j: int, k: int| 0 <= j < k < c.len() ==> #[trigger] c[j] + min <= #[trigger] c[k]
}
spec fn cut_end(c: Seq<usize>, len: int, j: int) -> int { if j + 1 < c.len() { c[j + 1] as int } else { len } }
// the node keeps d0[0, c0); the j-th new node holds d0[c_j, c_{j+1}) (the last one up to the end): nothing lost,
// nothing twice, order kept, every piece with at least two entries
spec fn pieces_ok(d0: NodeData, first: NodeData, v: Seq<Rc<RefCell<Node>>>, c: Seq<usize>) -> bool {
    &&& c.len() == v.len() && v.len() >= 1
    &&& cuts_ok(c, nd_len(d0) as int, 2)
    &&& nd_sub(d0, 0, c[0] as int, first)
    &&& forall|j: int| 0 <= j < v.len() ==> nd_sub(d0, c[j] as int, cut_end(c, nd_len(d0) as int, j), (#[trigger] v[j]).cur().data)
}
// a node made by split: not yet on a page, registered under the next free id, alive
spec fn fresh_node(n: Node, id: int, pagesize: u64) -> bool {
    n.id == id && n.page_id == 0 && n.children@.len() == 0 && !n.deleted && !n.spilled
        && n.parent is None && n.pagesize == pagesize
        && (n.original_key matches Some(k) && nd_len(n.data) > 0 && bytes_view(k) == nd_first_key(n.data))
}
spec fn nd_first_key(d: NodeData) -> Seq<u8> {
    match d { NodeData::Branches(b) => b@[0].key_seq(), NodeData::Leaves(l) => l@[0].key_seq() }
}
spec fn split_frame(a: Node, b: Node) -> bool {
    a.id == b.id && a.page_id == b.page_id && a.num_pages == b.num_pages && a.children == b.children && a.deleted == b.deleted
        && a.parent == b.parent && a.pagesize == b.pagesize && a.spilled == b.spilled && a.original_key == b.original_key
}
// the flattened view: entries of the pieces in order
spec fn nd_b(d: NodeData) -> Seq<Branch> { match d { NodeData::Branches(b) => b@, NodeData::Leaves(_) => Seq::empty() } }
spec fn nd_l(d: NodeData) -> Seq<Leaf> { match d { NodeData::Leaves(l) => l@, NodeData::Branches(_) => Seq::empty() } }
spec fn flat_b(v: Seq<Rc<RefCell<Node>>>) -> Seq<Branch>
    decreases v.len(),
{
    if v.len() == 0 { Seq::empty() } else { flat_b(v.drop_last()) + nd_b(v.last().cur().data) }
}
spec fn flat_l(v: Seq<Rc<RefCell<Node>>>) -> Seq<Leaf>
    decreases v.len(),
{
    if v.len() == 0 { Seq::empty() } else { flat_l(v.drop_last()) + nd_l(v.last().cur().data) }
}
// pieces_ok means: kept entries followed by the new nodes' entries ARE the old entries
proof fn lemma_pieces_concat(d0: NodeData, first: NodeData, v: Seq<Rc<RefCell<Node>>>, c: Seq<usize>)
    requires pieces_ok(d0, first, v, c),
    ensures
        nd_b(d0) == nd_b(first) + flat_b(v),
        nd_l(d0) == nd_l(first) + flat_l(v),
{
    lemma_pieces_prefix(d0, first, v, c, v.len() as int);
    assert(v.subrange(0, v.len() as int) == v);
    let len = nd_len(d0) as int;
    assert(cut_end(c, len, v.len() - 1) == len);
    match d0 {
        NodeData::Branches(o) => { assert(o@.subrange(0, len) == o@); }
        NodeData::Leaves(o) => { assert(o@.subrange(0, len) == o@); }
    }
}
proof fn lemma_pieces_prefix(d0: NodeData, first: NodeData, v: Seq<Rc<RefCell<Node>>>, c: Seq<usize>, m: int)
    requires pieces_ok(d0, first, v, c), 1 <= m <= v.len(),
    ensures
        nd_b(first) + flat_b(v.subrange(0, m)) == nd_b(d0).subrange(0, if d0 is Branches { cut_end(c, nd_len(d0) as int, m - 1) } else { 0 }),
        nd_l(first) + flat_l(v.subrange(0, m)) == nd_l(d0).subrange(0, if d0 is Leaves { cut_end(c, nd_len(d0) as int, m - 1) } else { 0 }),
    decreases m,
{
    let len = nd_len(d0) as int;
    let p = v.subrange(0, m);
    assert(p.drop_last() == v.subrange(0, m - 1));
    assert(p.last() == v[m - 1]);
    assert(nd_sub(d0, c[m - 1] as int, cut_end(c, len, m - 1), v[m - 1].cur().data));
    if m == 1 {
        assert(flat_b(p.drop_last()) == Seq::<Branch>::empty());
        assert(flat_l(p.drop_last()) == Seq::<Leaf>::empty());
    } else {
        lemma_pieces_prefix(d0, first, v, c, m - 1);
        assert(cut_end(c, len, m - 2) == c[m - 1]);
    }
    assert(flat_b(p) == flat_b(p.drop_last()) + nd_b(p.last().cur().data));
    assert(flat_l(p) == flat_l(p.drop_last()) + nd_l(p.last().cur().data));
    let lo = c[m - 1] as int;
    let hi = cut_end(c, len, m - 1);
    match d0 {
        NodeData::Branches(o) => {
            assert(first is Branches && v[m - 1].cur().data is Branches);
            assert(0 <= lo <= hi <= o@.len());
            assert(nd_b(v[m - 1].cur().data) == o@.subrange(lo, hi));
            assert(nd_b(first) + flat_b(p.drop_last()) == o@.subrange(0, lo));
            assert(nd_b(first) + flat_b(p) =~= (nd_b(first) + flat_b(p.drop_last())) + nd_b(p.last().cur().data));
            assert(o@.subrange(0, lo) + o@.subrange(lo, hi) =~= o@.subrange(0, hi));
            assert(nd_l(first) + flat_l(p.drop_last()) =~= Seq::<Leaf>::empty());
            assert(nd_l(first) + flat_l(p) =~= Seq::<Leaf>::empty());
        }
        NodeData::Leaves(o) => {
            assert(first is Leaves && v[m - 1].cur().data is Leaves);
            assert(0 <= lo <= hi <= o@.len());
            assert(nd_l(v[m - 1].cur().data) == o@.subrange(lo, hi));
            assert(nd_l(first) + flat_l(p.drop_last()) == o@.subrange(0, lo));
            assert(nd_l(first) + flat_l(p) =~= (nd_l(first) + flat_l(p.drop_last())) + nd_l(p.last().cur().data));
            assert(o@.subrange(0, lo) + o@.subrange(lo, hi) =~= o@.subrange(0, hi));
            assert(nd_b(first) + flat_b(p.drop_last()) =~= Seq::<Branch>::empty());
            assert(nd_b(first) + flat_b(p) =~= Seq::<Branch>::empty());
        }
    }
}
// stub U22: `((self.pagesize as f32) * FILL_PERCENT) as u64` (float arithmetic): ANY threshold; nothing proved below depends on its value
#[verifier::external_body]
fn fill_threshold(pagesize: u64) -> (r: u64)
{ unimplemented!() }
