spec fn hdr_freelist_page_ok(bytes: Seq<u8>, ps: int) -> bool {
    let m = select_header(bytes, ps)->Some_0;
    &&& (m.freelist_page * ps) % 8 == 0
    &&& m.freelist_page * ps + 40 <= bytes.len()
    &&& m.freelist_page * ps <= u64::MAX
    &&& page_view(bytes, m.freelist_page as int, ps).overflow < u64::MAX
}
// stub U5: the cast inside Pages::page (same precondition as page_at; K4)
#[verifier::external_body]
fn pages_page_cast<'a>(p: &Pages, id: PageID) -> (r: &'a Page)
    requires (id * p.pagesize) % 8 == 0, id * p.pagesize + 40 <= (*p.data)@.len(),
    ensures *r == page_view((*p.data)@, id as int, p.pagesize as int),
{ unimplemented!() }

impl<'b> InnerBucket<'b> {
    #[verifier::external_body]
    fn from_meta(meta: BucketMeta, pages: Pages) -> (r: InnerBucket<'b>)
    { unimplemented!() }
}
impl Bump {
    #[verifier::external_body]
    fn new() -> (r: Bump)
    { unimplemented!() }
}
impl SortUnstableV for MutexGuard<'_, Vec<u64>> {
    open spec fn seq_v(&self) -> Seq<u64> { self@@ }
    // the shim for a guarded list forwards to the list's (same assumed std contracts)
    fn sort_unstable_v(&mut self)
        ensures *final(final(self).inner) == *final(old(self).inner),      // the guard keeps guarding the same mutex
    { self.inner.sort_unstable_v() }
    fn binary_search_v(&self, x: &u64) -> (r: core::result::Result<usize, usize>) { self.inner.binary_search_v(x) }
}

spec fn new_tx_meta(bytes: Seq<u8>, ps: int, writable: bool) -> Meta {
    let m0 = select_header(bytes, ps)->Some_0;
    Meta { tx_id: if writable { (m0.tx_id + 1) as u64 } else { m0.tx_id }, ..m0 }
}
spec fn release_bound(readers: Seq<u64>, tx_id: u64) -> u64 {
    if readers.len() > 0 { readers[0] } else { tx_id }
}
// f is f0 after release(bound): equality in both directions (nothing more, nothing less)
spec fn released_exactly(f0: Freelist, f: Freelist, bound: u64) -> bool {
    &&& forall|k: u64| f.pending_pages@.contains_key(k) <==> (f0.pending_pages@.contains_key(k) && k >= bound)
    &&& forall|k: u64| f.pending_pages@.contains_key(k) ==> f.pending_pages@[k] == f0.pending_pages@[k]
    &&& forall|x: u64| f.free_pages@.contains(x) <==> (f0.free_pages@.contains(x) || released(f0.pending_pages@, bound, x))
}

proof fn lemma_push_multiset(s: Seq<u64>, x: u64)
    ensures s.push(x).to_multiset() == s.to_multiset().insert(x),
{
    broadcast use vstd::seq_lib::group_to_multiset_ensures;
    assert(s.push(x).to_multiset() =~= s.to_multiset().insert(x));
}
proof fn lemma_remove_multiset(s: Seq<u64>, i: int)
    requires 0 <= i < s.len(),
    ensures s.remove(i).to_multiset() == s.to_multiset().remove(s[i]),
{
    broadcast use vstd::seq_lib::group_to_multiset_ensures;
    assert(s.remove(i).to_multiset() =~= s.to_multiset().remove(s[i]));
}

// DB-level invariants a beginning WRITER relies on (established by DBInner::open, kept by every commit: units open / commit,
// lemmas L2/L3; stated here as the precondition under which Tx::new establishes what Tx::commit needs)
spec fn db_ok_for_writer(db: &DB) -> bool {
    let ps = db.inner.pagesize as int;
    let m0 = select_header(db.inner.bytes(), ps)->Some_0;
    let f = db.inner.freelist.cur();
    &&& db.inner.pagesize >= 1024
    &&& m0.num_pages > 1 && m0.freelist_page > 1
    &&& m0.freelist_page + page_view(db.inner.bytes(), m0.freelist_page as int, ps).overflow + 1 <= u64::MAX
    // every id the shared free list knows (free or pending) is a tree page below the header's high-water mark
    &&& forall|p: u64| f.free_pages@.contains(p) ==> 1 < p < m0.num_pages
    &&& pend_in_range(f, m0.num_pages)
    // the persisted free-list run lies below the high-water mark (it will join the pending pages at the next commit)
    &&& m0.freelist_page + page_view(db.inner.bytes(), m0.freelist_page as int, ps).overflow + 1 <= m0.num_pages
    // the map covers the file (open maps the whole file, resize remaps it after every extension)
    &&& db.inner.bytes().len() >= db.inner.file.cur().len()
}
