// ---- prelude/cell.rs: stand-ins for std::cell::RefCell / Ref / RefMut (assumed contracts) ----
// Sequential view: `cur()` is the value the cell holds when borrowed; a mutable borrow hands out that value
// and the cell takes the borrow's final value (stated on the RefMut).  Borrow-flag panics are not modelled.
#[verifier::external_body]
#[verifier::reject_recursive_types(T)]
pub struct RefCell<T> { _p: core::marker::PhantomData<T> }
#[verifier::external_body]
#[verifier::reject_recursive_types(T)]
pub struct Ref<'a, T> { _p: core::marker::PhantomData<&'a T> }
#[verifier::external_body]
#[verifier::reject_recursive_types(T)]
pub struct RefMut<'a, T> { _p: core::marker::PhantomData<&'a T> }
impl<T> RefCell<T> {
    pub uninterp spec fn cur(&self) -> T;
    #[verifier::external_body]
    pub fn new(v: T) -> (r: RefCell<T>)
        ensures r.cur() == v,
    { unimplemented!() }
    #[verifier::external_body]
    pub fn borrow(&self) -> (r: Ref<'_, T>)
        ensures r@ == self.cur(),
    { unimplemented!() }
    #[verifier::external_body]
    pub fn borrow_mut(&self) -> (r: RefMut<'_, T>)
        ensures r@ == self.cur(),
    { unimplemented!() }
}
impl<'a, T> Ref<'a, T> {
    pub uninterp spec fn view(&self) -> T;
}
impl<'a, T> RefMut<'a, T> {
    pub uninterp spec fn view(&self) -> T;
}
impl<'a, T> core::ops::Deref for Ref<'a, T> {
    type Target = T;
    #[verifier::external_body]
    fn deref(&self) -> (r: &T)
        ensures *r == self@,
    { unimplemented!() }
}
impl<'a, T> core::ops::Deref for RefMut<'a, T> {
    type Target = T;
    #[verifier::external_body]
    fn deref(&self) -> (r: &T)
        ensures *r == self@,
    { unimplemented!() }
}
impl<'a, T> core::ops::DerefMut for RefMut<'a, T> {
    #[verifier::external_body]
    fn deref_mut(&mut self) -> (r: &mut T)
        ensures *r == old(self)@, final(self)@ == *final(r),
    { unimplemented!() }
}
