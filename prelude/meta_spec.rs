// ---- prelude/meta_spec.rs: the 60 hashed bytes of a header record, in the pinned order ----
pub open spec fn meta_fields_bytes(meta_page: u32, magic: u32, version: u32, pagesize: u64, root_page: u64,
                                   next_int: u64, num_pages: u64, freelist_page: u64, tx_id: u64) -> Seq<u8> {
    be32(meta_page) + be32(magic) + be32(version) + be64(pagesize) + be64(root_page)
        + be64(next_int) + be64(num_pages) + be64(freelist_page) + be64(tx_id)
}
pub closed spec fn meta_bytes(m: Meta) -> Seq<u8> {
    meta_fields_bytes(m.meta_page, m.magic, m.version, m.pagesize, m.root.root_page, m.root.next_int,
                      m.num_pages, m.freelist_page, m.tx_id)
}
pub closed spec fn meta_hash_ok(m: Meta) -> bool { m.hash == fnv1a(meta_bytes(m)) }
