// ---- prelude/crash_spec.rs: L1, crash atomicity of one commit (all lemmas PROVED; two stated assumptions) ----
// The file is a byte sequence.  `t` is the I/O trace of the handle, `from` the length it had when write_data was
// entered; the commit's own events are t[from..].  Only Write events change the file.
spec fn write_at(d: Seq<u8>, off: int, b: Seq<u8>) -> Seq<u8> {
    Seq::new(d.len(), |x: int| if off <= x < off + b.len() { b[x - off] } else { d[x] })
}
spec fn covered(e: IoEv, x: int) -> bool {
    e matches IoEv::Write { off, bytes } && off <= x < off + bytes.len()
}
// the file after the events t[from..n) have been applied in full
spec fn applied(d0: Seq<u8>, t: Seq<IoEv>, from: int, n: int) -> Seq<u8>
    decreases n - from,
{
    if n <= from { d0 } else {
        let d = applied(d0, t, from, n - 1);
        match t[n - 1] { IoEv::Write { off, bytes } => write_at(d, off as int, bytes), _ => d }
    }
}
// index just after the last COMPLETED sync among t[from..n) (from if there is none)
spec fn last_sync(t: Seq<IoEv>, from: int, n: int) -> int
    decreases n - from,
{
    if n <= from { from } else if t[n - 1] == IoEv::Sync { n } else { last_sync(t, from, n - 1) }
}
spec fn covered_in(t: Seq<IoEv>, a: int, b: int, x: int) -> bool {
    exists|i: int| a <= i < b && covered(#[trigger] t[i], x)
}
// POWER LOSS at the point where t[from..n) have been issued: everything before the last completed sync is on the
// disk; every byte touched by a later write holds ANYTHING (this includes every subset of those writes, torn at
// sector or word granularity); every other byte is as the synced prefix left it.
// PROCESS KILL after t[from..n) is the special case d == applied(d0, t, from, n) (lemma_kill_is_a_crash_image).
spec fn crash_image(d0: Seq<u8>, t: Seq<IoEv>, from: int, n: int, d: Seq<u8>) -> bool {
    let s = last_sync(t, from, n);
    &&& d.len() == d0.len()
    &&& forall|x: int| 0 <= x < d.len() && !covered_in(t, s, n, x) ==> #[trigger] d[x] == applied(d0, t, from, s)[x]
}
spec fn region(d: Seq<u8>, off: int, len: int) -> Seq<u8> { d.subrange(off, off + len) }

proof fn lemma_applied_len(d0: Seq<u8>, t: Seq<IoEv>, from: int, n: int)
    ensures applied(d0, t, from, n).len() == d0.len(),
    decreases n - from,
{
    if n > from { lemma_applied_len(d0, t, from, n - 1); }
}
proof fn lemma_applied_outside(d0: Seq<u8>, t: Seq<IoEv>, from: int, a: int, b: int, x: int)
    requires from <= a <= b <= t.len(), 0 <= x < d0.len(), !covered_in(t, a, b, x),
    ensures applied(d0, t, from, b)[x] == applied(d0, t, from, a)[x],
    decreases b - a,
{
    lemma_applied_len(d0, t, from, b);
    if b > a {
        assert(!covered(t[b - 1], x));
        assert(!covered_in(t, a, b - 1, x)) by {
            if covered_in(t, a, b - 1, x) { let i = choose|i: int| a <= i < b - 1 && covered(#[trigger] t[i], x); assert(covered(t[i], x)); }
        }
        lemma_applied_outside(d0, t, from, a, b - 1, x);
        lemma_applied_len(d0, t, from, b - 1);
    }
}
proof fn lemma_last_sync_bounds(t: Seq<IoEv>, from: int, n: int)
    requires from <= n <= t.len(),
    ensures from <= last_sync(t, from, n) <= n,
        last_sync(t, from, n) > from ==> t[last_sync(t, from, n) - 1] == IoEv::Sync,
        forall|i: int| last_sync(t, from, n) <= i < n ==> #[trigger] t[i] != IoEv::Sync,
    decreases n - from,
{
    if n > from && t[n - 1] != IoEv::Sync { lemma_last_sync_bounds(t, from, n - 1); }
}
proof fn lemma_kill_is_a_crash_image(d0: Seq<u8>, t: Seq<IoEv>, from: int, n: int)
    requires 0 <= from <= n <= t.len(),
    ensures crash_image(d0, t, from, n, applied(d0, t, from, n)),
{
    let s = last_sync(t, from, n);
    lemma_last_sync_bounds(t, from, n);
    lemma_applied_len(d0, t, from, n);
    assert forall|x: int| 0 <= x < d0.len() && !covered_in(t, s, n, x) implies #[trigger] applied(d0, t, from, n)[x] == applied(d0, t, from, s)[x] by {
        lemma_applied_outside(d0, t, from, s, n, x);
    }
}

// ---- what the contract of write_data says about the commit's events (clauses revealed) ----
spec fn commit_clauses(t: Seq<IoEv>, from: int, ps: int, pages: Map<u64, (NonNull<u8>, usize)>, m: Meta) -> bool {
    &&& 0 <= from <= t.len() && ps > 0
    &&& forall|i: int| from <= i < t.len() ==> data_write_ok(#[trigger] t[i], ps, pages) || is_hdr_write(t[i], ps)                // (w1)
    &&& forall|i: int| from <= i < t.len() && is_hdr_write(#[trigger] t[i], ps) ==> hdr_write_ok(t[i], ps, m)                      // (w2)
    &&& forall|i: int, j: int| from <= i < j < t.len() && is_hdr_write(#[trigger] t[i], ps) ==> !(#[trigger] t[j] is Write)        // (w2)
    &&& forall|i: int, j: int| from <= i < j < t.len() && is_data_write(#[trigger] t[i], ps) && is_hdr_write(#[trigger] t[j], ps)
            ==> sync_between(t, i, j)                                                                                               // (w3)
}
proof fn lemma_clauses_from_contract(t0: Seq<IoEv>, t: Seq<IoEv>, ps: int, pages: Map<u64, (NonNull<u8>, usize)>, m: Meta)
    requires
        is_prefix(t0, t), ps > 0,
        w1_data_writes(t0, t, ps, pages), w2_header_content(t0, t, ps, m), w2_header_is_last_write(t0, t, ps),
        w3_data_durable_before_header(t0, t, ps),
    ensures commit_clauses(t, t0.len() as int, ps, pages, m),
{
    reveal(w1_data_writes); reveal(w2_header_content); reveal(w2_header_is_last_write); reveal(w3_data_durable_before_header);
}

// a byte at or beyond 2*ps that no data write of the commit touches (pages the old header can reach: T1/F1 + INV-live)
spec fn untouched_by_commit(t: Seq<IoEv>, from: int, x: int) -> bool { !covered_in(t, from, t.len() as int, x) }

// L1, part 1: as long as no header write has been issued, a crash leaves BOTH header slots and every byte the commit
// does not write exactly as they were (so recovery selects the old header and reads the old tree).
proof fn lemma_crash_before_header_write(d0: Seq<u8>, t: Seq<IoEv>, from: int, n: int, d: Seq<u8>,
                                         ps: int, pages: Map<u64, (NonNull<u8>, usize)>, m: Meta)
    requires
        commit_clauses(t, from, ps, pages, m), from <= n <= t.len(), 2 * ps <= d0.len(),
        forall|i: int| from <= i < n ==> !is_hdr_write(#[trigger] t[i], ps),
        crash_image(d0, t, from, n, d),
    ensures
        region(d, 0, 2 * ps) == region(d0, 0, 2 * ps),
        forall|x: int| 0 <= x < d0.len() && untouched_by_commit(t, from, x) ==> #[trigger] d[x] == d0[x],
{
    let s = last_sync(t, from, n);
    lemma_last_sync_bounds(t, from, n);
    assert forall|x: int| 0 <= x < d0.len() && (x < 2 * ps || untouched_by_commit(t, from, x)) implies #[trigger] d[x] == d0[x] by {
        // no event of t[from..n) covers x
        assert(!covered_in(t, from, n, x)) by {
            if covered_in(t, from, n, x) {
                let i = choose|i: int| from <= i < n && covered(#[trigger] t[i], x);
                if x < 2 * ps {
                    assert(data_write_ok(t[i], ps, pages) || is_hdr_write(t[i], ps));
                    assert(!is_hdr_write(t[i], ps));
                    match t[i] {
                        IoEv::Write { off, bytes } => {
                            let k = choose|k: u64| #![trigger pages.contains_key(k)] pages.contains_key(k) && k > 1 && off == ps * k && bytes.len() == pages[k].1;
                            assert(ps * k >= 2 * ps) by(nonlinear_arith) requires k >= 2, ps > 0;
                        },
                        _ => {},
                    }
                } else {
                    assert(covered_in(t, from, t.len() as int, x));
                }
            }
        }
        assert(!covered_in(t, s, n, x)) by {
            if covered_in(t, s, n, x) { let i = choose|i: int| s <= i < n && covered(#[trigger] t[i], x); assert(covered_in(t, from, n, x)); }
        }
        assert(!covered_in(t, from, s, x)) by {
            if covered_in(t, from, s, x) { let i = choose|i: int| from <= i < s && covered(#[trigger] t[i], x); assert(covered_in(t, from, n, x)); }
        }
        lemma_applied_outside(d0, t, from, from, s, x);
    }
    assert(region(d, 0, 2 * ps) =~= region(d0, 0, 2 * ps));
}

// ---- part 2: a header write has been issued ----
proof fn lemma_sync_lower_bound(t: Seq<IoEv>, from: int, n: int, k: int)
    requires from <= k < n <= t.len(), t[k] == IoEv::Sync,
    ensures last_sync(t, from, n) >= k + 1,
    decreases n - from,
{
    if t[n - 1] != IoEv::Sync { lemma_sync_lower_bound(t, from, n - 1, k); }
}
// with the header write at index h: every other write of the commit is a data write before h that a completed sync
// separates from h
proof fn lemma_writes_around_header(t: Seq<IoEv>, from: int, ps: int, pages: Map<u64, (NonNull<u8>, usize)>, m: Meta, h: int, c: int)
    requires commit_clauses(t, from, ps, pages, m), from <= h < t.len(), is_hdr_write(t[h], ps), from <= c < t.len(), t[c] is Write, c != h,
    ensures c < h, is_data_write(t[c], ps), sync_between(t, c, h),
{
    if c > h { assert(!(t[c] is Write)); }
    assert(data_write_ok(t[c], ps, pages) || is_hdr_write(t[c], ps));
    if is_hdr_write(t[c], ps) { assert(!(t[h] is Write)); }
    match t[c] {
        IoEv::Write { off, bytes } => {
            let k = choose|k: u64| #![trigger pages.contains_key(k)] pages.contains_key(k) && k > 1 && off == ps * k && bytes.len() == pages[k].1;
            assert(ps * k >= 2 * ps) by(nonlinear_arith) requires k >= 2, ps > 0;
        },
        _ => {},
    }
}
spec fn hdr_off(m: Meta, ps: int) -> int { ps * slot_of(m) }
spec fn in_slot(x: int, m: Meta, ps: int) -> bool { hdr_off(m, ps) <= x < hdr_off(m, ps) + ps }

// L1, part 2: once the header write (index h) has been issued, a crash finds EVERY data write of the commit complete on
// the disk (they all precede a completed sync), the other header slot as it was, and only the bytes of the slot being
// written possibly torn; if a sync completed after the header write, that slot holds exactly the new header.
proof fn lemma_crash_after_header_write(d0: Seq<u8>, t: Seq<IoEv>, from: int, n: int, d: Seq<u8>,
                                        ps: int, pages: Map<u64, (NonNull<u8>, usize)>, m: Meta, h: int)
    requires
        commit_clauses(t, from, ps, pages, m), from <= h < n <= t.len(), 2 * ps <= d0.len(), is_hdr_write(t[h], ps),
        crash_image(d0, t, from, n, d),
    ensures
        forall|x: int| 0 <= x < d0.len() && !in_slot(x, m, ps) ==> #[trigger] d[x] == applied(d0, t, from, h)[x],
        forall|x: int| 0 <= x < 2 * ps && !in_slot(x, m, ps) ==> #[trigger] d[x] == d0[x],
        last_sync(t, from, n) > h ==> (forall|x: int| in_slot(x, m, ps) && 0 <= x < d0.len() ==> #[trigger] d[x] == applied(d0, t, from, h + 1)[x]),
{
    let s = last_sync(t, from, n);
    lemma_last_sync_bounds(t, from, n);
    assert(hdr_write_ok(t[h], ps, m));
    let hoff = hdr_off(m, ps);
    // every covering event in [s, n) is the header write
    assert forall|x: int, c: int| s <= c < n && #[trigger] covered(t[c], x) implies c == h && in_slot(x, m, ps) by {
        if c != h {
            lemma_writes_around_header(t, from, ps, pages, m, h, c);
            let k = choose|k: int| c < k < h && #[trigger] t[k] == IoEv::Sync;
            lemma_sync_lower_bound(t, from, n, k);
        }
    }
    assert forall|x: int| 0 <= x < d0.len() && !in_slot(x, m, ps) implies #[trigger] d[x] == applied(d0, t, from, h)[x] by {
        assert(!covered_in(t, s, n, x)) by {
            if covered_in(t, s, n, x) { let c = choose|c: int| s <= c < n && covered(#[trigger] t[c], x); assert(in_slot(x, m, ps)); }
        }
        // applied(s)[x] == applied(h)[x]: between them only the header write (which does not cover x) or nothing
        if s <= h {
            assert(!covered_in(t, s, h, x)) by {
                if covered_in(t, s, h, x) { let c = choose|c: int| s <= c < h && covered(#[trigger] t[c], x); assert(in_slot(x, m, ps)); }
            }
            lemma_applied_outside(d0, t, from, s, h, x);
        } else {
            assert(!covered_in(t, h, s, x)) by {
                if covered_in(t, h, s, x) {
                    let c = choose|c: int| h <= c < s && covered(#[trigger] t[c], x);
                    if c != h { lemma_writes_around_header(t, from, ps, pages, m, h, c); }
                }
            }
            lemma_applied_outside(d0, t, from, h, s, x);
        }
    }
    assert forall|x: int| 0 <= x < 2 * ps && !in_slot(x, m, ps) implies #[trigger] d[x] == d0[x] by {
        assert(!covered_in(t, from, h, x)) by {
            if covered_in(t, from, h, x) {
                let c = choose|c: int| from <= c < h && covered(#[trigger] t[c], x);
                lemma_writes_around_header(t, from, ps, pages, m, h, c);
                match t[c] { IoEv::Write { off, bytes } => { assert(off >= 2 * ps); }, _ => {} }
            }
        }
        lemma_applied_outside(d0, t, from, from, h, x);
    }
    if s > h {
        assert forall|x: int| in_slot(x, m, ps) && 0 <= x < d0.len() implies #[trigger] d[x] == applied(d0, t, from, h + 1)[x] by {
            assert(!covered_in(t, s, n, x)) by {
                if covered_in(t, s, n, x) { let c = choose|c: int| s <= c < n && covered(#[trigger] t[c], x); assert(c == h); }
            }
            assert(!covered_in(t, h + 1, s, x)) by {
                if covered_in(t, h + 1, s, x) {
                    let c = choose|c: int| h + 1 <= c < s && covered(#[trigger] t[c], x);
                    lemma_writes_around_header(t, from, ps, pages, m, h, c);
                }
            }
            lemma_applied_outside(d0, t, from, h + 1, s, x);
        }
    }
}

// ---- part 3: what recovery (the oracle of DBInner::meta's contract, `select_header`) reads from a crash image ----
// ASSUMPTION (layout; the casts themselves are pinned by Kani units K1/K4): the views of page i are functions of the
// ps bytes of that page only.
#[verifier::external_body]
proof fn axiom_view_locality(d: Seq<u8>, i: int, ps: int)
    requires 0 <= i, ps > 0, i * ps + ps <= d.len(),
    ensures
        page_view(d, i, ps) == page_view(region(d, i * ps, ps), 0, ps),
        meta_view(d, i, ps) == meta_view(region(d, i * ps, ps), 0, ps),
        old_meta_view(d, i, ps) == old_meta_view(region(d, i * ps, ps), 0, ps),
{
}
proof fn lemma_slot_same(d1: Seq<u8>, d2: Seq<u8>, i: int, ps: int)
    requires 0 <= i, ps > 0, i * ps + ps <= d1.len(), i * ps + ps <= d2.len(), region(d1, i * ps, ps) == region(d2, i * ps, ps),
    ensures slot_new(d1, i, ps) == slot_new(d2, i, ps), slot_old(d1, i, ps) == slot_old(d2, i, ps),
{
    axiom_view_locality(d1, i, ps);
    axiom_view_locality(d2, i, ps);
}
proof fn lemma_region_pointwise(d1: Seq<u8>, d2: Seq<u8>, off: int, len: int)
    requires 0 <= off, 0 <= len, off + len <= d1.len(), off + len <= d2.len(), forall|x: int| off <= x < off + len ==> d1[x] == d2[x],
    ensures region(d1, off, len) == region(d2, off, len),
{
    assert(region(d1, off, len) =~= region(d2, off, len));
}
// the new header as the commit writes it
spec fn new_header_bytes_ok(hb: Seq<u8>, ps: int, m: Meta) -> bool {
    &&& hb.len() == ps
    &&& page_view(hb, 0, ps).page_type == 3
    &&& same_header_fields(meta_view(hb, 0, ps), header_for(m))
}
proof fn lemma_new_header_slot(d: Seq<u8>, hb: Seq<u8>, ps: int, m: Meta)
    requires ps > 0, hdr_off(m, ps) + ps <= d.len(), region(d, hdr_off(m, ps), ps) == hb, new_header_bytes_ok(hb, ps, m),
    ensures slot_new(d, slot_of(m) as int, ps) == Some(header_for(m)),
{
    let sl = slot_of(m) as int;
    axiom_view_locality(d, sl, ps);
    assert(hb.subrange(0, ps) =~= hb);
    let v = meta_view(hb, 0, ps);
    let hf = header_for(m);
    assert(v == hf);
    let h0 = Meta { hash: 0, ..hf };
    assert(meta_bytes(hf) == meta_bytes(h0));
}

// the state the commit starts from: the newest valid header m_old is a current-format header in the slot the commit does
// NOT write, and whatever else is valid in the file is older than m_old (files written by this version satisfy this from
// the first commit on; the very first commit on a legacy-format file is outside the theorem)
spec fn before_commit(d0: Seq<u8>, ps: int, m: Meta, m_old: Meta) -> bool {
    let sl = slot_of(m) as int;
    &&& slot_new(d0, 1 - sl, ps) == Some(m_old)
    &&& m_old.tx_id < m.tx_id
    &&& (slot_new(d0, sl, ps) matches Some(z) ==> z.tx_id < m_old.tx_id)
}
// recovery picks the old header when the slot being written is unchanged or invalid, the new one when it is complete
proof fn lemma_select_old(d: Seq<u8>, d0: Seq<u8>, ps: int, m: Meta, m_old: Meta)
    requires
        before_commit(d0, ps, m, m_old),
        slot_new(d, 1 - slot_of(m) as int, ps) == slot_new(d0, 1 - slot_of(m) as int, ps),
        slot_new(d, slot_of(m) as int, ps) == slot_new(d0, slot_of(m) as int, ps) || slot_new(d, slot_of(m) as int, ps) is None,
    ensures select_header(d, ps) == Some(m_old),
{
    let sl = slot_of(m) as int;
    assert(sl == 0 || sl == 1);
}
proof fn lemma_select_new(d: Seq<u8>, d0: Seq<u8>, ps: int, m: Meta, m_old: Meta)
    requires
        before_commit(d0, ps, m, m_old),
        slot_new(d, 1 - slot_of(m) as int, ps) == slot_new(d0, 1 - slot_of(m) as int, ps),
        slot_new(d, slot_of(m) as int, ps) == Some(header_for(m)),
    ensures select_header(d, ps) == Some(header_for(m)),
{
    let sl = slot_of(m) as int;
    assert(sl == 0 || sl == 1);
    assert(header_for(m).tx_id == m.tx_id);
}
// H1 (checksum, assumed beyond the single-byte case proved in unit `meta`): a slot that is caught half-written is valid
// (in either format) only if it holds the complete new record or is still what it was
spec fn torn_header_detected(d: Seq<u8>, d0: Seq<u8>, hb: Seq<u8>, ps: int, m: Meta) -> bool {
    let sl = slot_of(m) as int;
    (slot_new(d, sl, ps) is Some || slot_old(d, sl, ps) is Some)
        ==> region(d, hdr_off(m, ps), ps) == hb || region(d, hdr_off(m, ps), ps) == region(d0, hdr_off(m, ps), ps)
}
spec fn old_state_intact(d0: Seq<u8>, d: Seq<u8>, t: Seq<IoEv>, from: int, ps: int, m_old: Meta) -> bool {
    &&& select_header(d, ps) == Some(m_old)
    &&& forall|x: int| 2 * ps <= x < d0.len() && untouched_by_commit(t, from, x) ==> #[trigger] d[x] == d0[x]
}
spec fn new_state_complete(d0: Seq<u8>, d: Seq<u8>, t: Seq<IoEv>, from: int, ps: int, m: Meta, h: int) -> bool {
    &&& select_header(d, ps) == Some(header_for(m))
    &&& forall|x: int| 2 * ps <= x < d0.len() ==> #[trigger] d[x] == applied(d0, t, from, h)[x]      // every data write of the commit, in full
}

// L1 (C02).  For every crash point n of the commit (process kill: d = applied(..n); power loss: any crash_image), recovery
// selects EITHER the old header, and every byte the commit does not write is as before (with T1/F1 + INV-live: the whole
// old tree), OR the new header, and every data write of the commit is completely on the disk.
proof fn theorem_crash_atomicity(d0: Seq<u8>, t: Seq<IoEv>, from: int, n: int, d: Seq<u8>,
                                 ps: int, pages: Map<u64, (NonNull<u8>, usize)>, m: Meta, m_old: Meta)
    requires
        commit_clauses(t, from, ps, pages, m), from <= n <= t.len(), 2 * ps <= d0.len(),
        crash_image(d0, t, from, n, d),
        before_commit(d0, ps, m, m_old),
        forall|h: int| from <= h < n && is_hdr_write(#[trigger] t[h], ps) ==> torn_header_detected(d, d0, t[h]->Write_bytes, ps, m),
    ensures
        old_state_intact(d0, d, t, from, ps, m_old)
            || exists|h: int| from <= h < n && is_hdr_write(#[trigger] t[h], ps) && new_state_complete(d0, d, t, from, ps, m, h),
{
    let sl = slot_of(m) as int;
    assert(sl == 0 || sl == 1);
    let hoff = hdr_off(m, ps);
    assert(hoff == sl * ps) by(nonlinear_arith) requires hoff == ps * sl;
    assert(hoff + ps <= 2 * ps) by(nonlinear_arith) requires hoff == sl * ps, sl <= 1, ps > 0;
    assert((1 - sl) * ps + ps <= 2 * ps) by(nonlinear_arith) requires 0 <= sl, ps > 0;
    assert((1 - sl) * ps >= 0) by(nonlinear_arith) requires sl <= 1, ps > 0;
    let oth = (1 - sl) * ps;
    if exists|h: int| from <= h < n && is_hdr_write(#[trigger] t[h], ps) {
        let h = choose|h: int| from <= h < n && is_hdr_write(#[trigger] t[h], ps);
        lemma_crash_after_header_write(d0, t, from, n, d, ps, pages, m, h);
        let hb = t[h]->Write_bytes;
        assert(hdr_write_ok(t[h], ps, m));
        assert(new_header_bytes_ok(hb, ps, m));
        // the other slot is as it was
        assert forall|x: int| oth <= x < oth + ps implies d[x] == d0[x] by {
            assert(!in_slot(x, m, ps)) by {
                if sl == 0 { assert(oth == ps) by(nonlinear_arith) requires oth == (1 - sl) * ps, sl == 0; assert(hoff == 0) by(nonlinear_arith) requires hoff == sl * ps, sl == 0; }
                else { assert(oth == 0) by(nonlinear_arith) requires oth == (1 - sl) * ps, sl == 1; assert(hoff == ps) by(nonlinear_arith) requires hoff == sl * ps, sl == 1; }
            }
        }
        lemma_region_pointwise(d, d0, oth, ps);
        lemma_slot_same(d, d0, 1 - sl, ps);
        // data bytes: untouched ones are as before
        assert forall|x: int| 2 * ps <= x < d0.len() && untouched_by_commit(t, from, x) implies #[trigger] d[x] == d0[x] by {
            assert(!in_slot(x, m, ps));
            assert(!covered_in(t, from, h, x)) by {
                if covered_in(t, from, h, x) { let c = choose|c: int| from <= c < h && covered(#[trigger] t[c], x); assert(covered_in(t, from, t.len() as int, x)); }
            }
            lemma_applied_outside(d0, t, from, from, h, x);
        }
        assert(torn_header_detected(d, d0, hb, ps, m));
        if region(d, hoff, ps) == hb {
            lemma_new_header_slot(d, hb, ps, m);
            lemma_select_new(d, d0, ps, m, m_old);
            assert forall|x: int| 2 * ps <= x < d0.len() implies #[trigger] d[x] == applied(d0, t, from, h)[x] by { assert(!in_slot(x, m, ps)); }
            assert(new_state_complete(d0, d, t, from, ps, m, h));
        } else if region(d, hoff, ps) == region(d0, hoff, ps) {
            lemma_slot_same(d, d0, sl, ps);
            lemma_select_old(d, d0, ps, m, m_old);
        } else {
            assert(slot_new(d, sl, ps) is None);
            lemma_select_old(d, d0, ps, m, m_old);
        }
    } else {
        lemma_crash_before_header_write(d0, t, from, n, d, ps, pages, m);
        assert(region(region(d, 0, 2 * ps), hoff, ps) =~= region(d, hoff, ps));
        assert(region(region(d0, 0, 2 * ps), hoff, ps) =~= region(d0, hoff, ps));
        assert(region(region(d, 0, 2 * ps), oth, ps) =~= region(d, oth, ps));
        assert(region(region(d0, 0, 2 * ps), oth, ps) =~= region(d0, oth, ps));
        lemma_slot_same(d, d0, sl, ps);
        lemma_slot_same(d, d0, 1 - sl, ps);
        lemma_select_old(d, d0, ps, m, m_old);
    }
}
// after commit has returned Ok (w3-header-durable-on-ok: a sync completed after the header write) only the new state is left
proof fn corollary_durable_after_ok(d0: Seq<u8>, t: Seq<IoEv>, from: int, d: Seq<u8>,
                                    ps: int, pages: Map<u64, (NonNull<u8>, usize)>, m: Meta, m_old: Meta, h: int)
    requires
        commit_clauses(t, from, ps, pages, m), 2 * ps <= d0.len(),
        crash_image(d0, t, from, t.len() as int, d), before_commit(d0, ps, m, m_old),
        from <= h < t.len(), is_hdr_write(t[h], ps), sync_between(t, h, t.len() as int),
    ensures new_state_complete(d0, d, t, from, ps, m, h),
{
    let n = t.len() as int;
    let sl = slot_of(m) as int;
    let hoff = hdr_off(m, ps);
    assert(hoff == sl * ps) by(nonlinear_arith) requires hoff == ps * sl;
    assert(hoff + ps <= 2 * ps) by(nonlinear_arith) requires hoff == sl * ps, sl <= 1, ps > 0;
    assert((1 - sl) * ps + ps <= 2 * ps) by(nonlinear_arith) requires 0 <= sl, ps > 0;
    assert((1 - sl) * ps >= 0) by(nonlinear_arith) requires sl <= 1, ps > 0;
    let oth = (1 - sl) * ps;
    let k = choose|k: int| h < k < n && #[trigger] t[k] == IoEv::Sync;
    lemma_sync_lower_bound(t, from, n, k);
    lemma_crash_after_header_write(d0, t, from, n, d, ps, pages, m, h);
    let hb = t[h]->Write_bytes;
    assert(hdr_write_ok(t[h], ps, m));
    // the slot holds exactly the header write's bytes
    lemma_applied_len(d0, t, from, h);
    assert forall|x: int| hoff <= x < hoff + ps implies d[x] == hb[x - hoff] by {
        assert(in_slot(x, m, ps));
        assert(applied(d0, t, from, h + 1) == write_at(applied(d0, t, from, h), hoff, hb));
    }
    assert(region(d, hoff, ps) =~= hb);
    lemma_new_header_slot(d, hb, ps, m);
    assert forall|x: int| oth <= x < oth + ps implies d[x] == d0[x] by {
        assert(!in_slot(x, m, ps)) by {
            if sl == 0 { assert(oth == ps) by(nonlinear_arith) requires oth == (1 - sl) * ps, sl == 0; assert(hoff == 0) by(nonlinear_arith) requires hoff == sl * ps, sl == 0; }
            else { assert(oth == 0) by(nonlinear_arith) requires oth == (1 - sl) * ps, sl == 1; assert(hoff == ps) by(nonlinear_arith) requires hoff == sl * ps, sl == 1; }
        }
    }
    lemma_region_pointwise(d, d0, oth, ps);
    lemma_slot_same(d, d0, 1 - sl, ps);
    lemma_select_new(d, d0, ps, m, m_old);
    assert forall|x: int| 2 * ps <= x < d0.len() implies #[trigger] d[x] == applied(d0, t, from, h)[x] by { assert(!in_slot(x, m, ps)); }
}

// which bytes the commit can touch at all: only bytes of pages allocated by this transaction (w1), so a byte of any
// other page (with T1/F1 + INV-live: every page reachable from the old header) is untouched
proof fn lemma_untouched_outside_allocated(t: Seq<IoEv>, from: int, ps: int, pages: Map<u64, (NonNull<u8>, usize)>, m: Meta, x: int)
    requires
        commit_clauses(t, from, ps, pages, m), x >= 2 * ps,
        forall|k: u64| #![trigger pages.contains_key(k)] pages.contains_key(k) ==> !(ps * k <= x < ps * k + pages[k].1),
    ensures untouched_by_commit(t, from, x),
{
    if covered_in(t, from, t.len() as int, x) {
        let c = choose|c: int| from <= c < t.len() && covered(#[trigger] t[c], x);
        assert(data_write_ok(t[c], ps, pages) || is_hdr_write(t[c], ps));
        if is_hdr_write(t[c], ps) {
            assert(hdr_write_ok(t[c], ps, m));
            let sl = slot_of(m) as int;
            assert(ps * sl + ps <= 2 * ps) by(nonlinear_arith) requires sl <= 1, ps > 0;
        } else {
            match t[c] {
                IoEv::Write { off, bytes } => {
                    let k = choose|k: u64| #![trigger pages.contains_key(k)] pages.contains_key(k) && k > 1 && off == ps * k && bytes.len() == pages[k].1;
                    assert(pages.contains_key(k));
                },
                _ => {},
            }
        }
    }
}

// with (w3-all-pages-written-before-header): when the header write (index h) exists, every page allocated by the
// transaction was written before it; together with new_state_complete the whole new tree is on the disk
proof fn lemma_all_pages_before_header(t0: Seq<IoEv>, t: Seq<IoEv>, ps: int, pages: Map<u64, (NonNull<u8>, usize)>, m: Meta, h: int, k: u64)
    requires
        commit_clauses(t, t0.len() as int, ps, pages, m), w3_all_pages_written(t0, t, ps, pages),
        t0.len() <= h < t.len(), is_hdr_write(t[h], ps), pages.contains_key(k), k > 1,
    ensures exists|i: int| t0.len() <= i < h && (#[trigger] t[i] matches IoEv::Write { off, .. } && off == ps * k),
{
    reveal(w3_all_pages_written);
    assert(page_written(t, t0.len() as int, ps, k));
    let i = choose|i: int| t0.len() <= i < t.len() && (#[trigger] t[i] matches IoEv::Write { off, .. } && off == ps * k);
    assert(ps * k >= 2 * ps) by(nonlinear_arith) requires k >= 2, ps > 0;
    assert(i != h);
    lemma_writes_around_header(t, t0.len() as int, ps, pages, m, h, i);
}
