// ---- prelude/tree_frame_spec.rs: the allocator-side frame of the tree layer (predicate shared by units commit and bucketcommit) ----
spec fn txfl_inv(f: TxFreelist) -> bool {
    f.inner.wf() && f.below_hwm() && f.pages_wf() && f.meta.num_pages > 1
}
spec fn tree_frame(f0: TxFreelist, f1: TxFreelist) -> bool {
    &&& (txfl_inv(f0) ==> txfl_inv(f1))
    &&& f1.meta.pagesize == f0.meta.pagesize && f1.meta.tx_id == f0.meta.tx_id
    &&& f1.meta.num_pages >= f0.meta.num_pages
    // the tree layer frees only pages of the tree it was handed, which lie below the high-water mark (what check() decides at run
    // time): pending ids stay tree pages below the (growing) high-water mark
    &&& (pend_in_range(f0.inner, f0.meta.num_pages) ==> pend_in_range(f1.inner, f1.meta.num_pages))
}
