// ---- prelude/tree_frame_spec.rs: the allocator-side frame of the tree layer (predicate shared by units commit and bucketcommit) ----
spec fn txfl_inv(f: TxFreelist) -> bool {
    f.inner.wf() && f.below_hwm() && f.pages_wf() && f.meta.num_pages > 1
}
spec fn tree_frame(f0: TxFreelist, f1: TxFreelist) -> bool {
    &&& (txfl_inv(f0) ==> txfl_inv(f1))
    &&& f1.meta.pagesize == f0.meta.pagesize && f1.meta.tx_id == f0.meta.tx_id
    &&& f1.meta.num_pages >= f0.meta.num_pages
}
