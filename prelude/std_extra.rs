// ---- prelude/std_extra.rs: assumed contracts of std functions that vstd does not cover ----
// Option::filter: keeps the value iff the predicate (called once on a reference to it) answers true
pub assume_specification<T, P: FnOnce(&T) -> bool> [Option::<T>::filter] (o: Option<T>, p: P) -> (r: Option<T>)
    ensures
        o is None ==> r is None,
        o matches Some(x) ==> (r is None || r == Some(x)) && (forall|b: bool| call_ensures(p, (&x,), b) ==> (b <==> r is Some));
// mem::replace: moves `src` in and the old value out
pub assume_specification<T> [core::mem::replace::<T>] (dest: &mut T, src: T) -> (r: T)
    ensures r == *old(dest), *final(dest) == src;
// rule D12: the text of an error message (`format!(..)`) is a String no contract speaks about
#[verifier::external_body]
pub fn verif_format() -> (r: String)
{ unimplemented!() }
// std: u64::from(bool) is 1 for true and 0 for false
pub assume_specification [<u64 as core::convert::From<bool>>::from] (b: bool) -> (r: u64)
    ensures r == (if b { 1u64 } else { 0u64 });
// std: Option<&T>::copied (T: Copy)
pub assume_specification<'a, T: Copy> [Option::<&'a T>::copied] (o: Option<&'a T>) -> (r: Option<T>)
    ensures r == (match o { Some(v) => Some(*v), None => None::<T> });
