impl<T> vstd::std_specs::convert::FromSpecImpl<PoisonError<T>> for Error {
    open spec fn obeys_from_spec() -> bool { false }
    open spec fn from_spec(v: PoisonError<T>) -> Self { arbitrary() }
}
//@fn Error_from_poison
