// ---- prelude/filters.rs: what the bucket-only / pair-only iterators are written against (ASSUMED contracts) ----
// The real structs Buckets<I> / KVPairs<I> are generic over the inner iterator I (a Cursor or a Range).  They are
// verified at I = SrcIter, a stand-in whose whole remaining output is a ghost sequence: `next()` hands out its first
// element.  (Cursor and Range satisfy this reading by their own contracts: units cursor, range.)
#[verifier::external_body]
pub struct BucketName<'b, 'tx> { _p: core::marker::PhantomData<(&'b (), &'tx ())> }
#[verifier::external_body]
pub struct KVPair<'b, 'tx> { _p: core::marker::PhantomData<(&'b (), &'tx ())> }
pub struct SrcIter<'b, 'tx> { pub rest: Ghost<Seq<Data<'b, 'tx>>> }
impl<'b, 'tx> SrcIter<'b, 'tx> {
    #[verifier::external_body]
    pub fn next(&mut self) -> (r: Option<Data<'b, 'tx>>)
        ensures
            old(self).rest@.len() == 0 ==> r is None && final(self).rest@ == old(self).rest@,
            old(self).rest@.len() > 0 ==> r == Some(old(self).rest@[0]) && final(self).rest@ == old(self).rest@.subrange(1, old(self).rest@.len() as int),
    { unimplemented!() }
}
#[verifier::external_body]
pub struct InnerBucket<'b> { _p: core::marker::PhantomData<&'b ()> }
#[verifier::external_body]
pub struct TxFreelist { _private: () }
// the tree behind `bucket` lists this name as a nested bucket (so that looking it up cannot fail)
pub uninterp spec fn names_a_bucket(b: InnerBucket, n: BucketName) -> bool;
// the handle the bucket keeps REGISTERED for a child name (what InnerBucket::get_bucket answers with: units bucketops proves that a lookup
// registers the handle and never swaps a registered one)
pub uninterp spec fn registered_handle<'tx>(b: InnerBucket<'tx>, n: BucketName) -> Rc<RefCell<InnerBucket<'tx>>>;
impl<'tx> InnerBucket<'tx> {
    #[verifier::external_body]
    pub fn get_bucket<'a, 'b>(&'a mut self, name: &BucketName<'b, 'tx>) -> (r: core::result::Result<Rc<RefCell<InnerBucket<'tx>>>, ()>)
        ensures names_a_bucket(*old(self), *name) ==> r is Ok,
            r matches Ok(rc) ==> rc == registered_handle(*old(self), *name),
    { unimplemented!() }
}
pub struct Bucket<'b, 'tx: 'b> {
    pub inner: Rc<RefCell<InnerBucket<'tx>>>,
    pub freelist: Rc<RefCell<TxFreelist>>,
    pub writable: bool,
    pub _phantom: PhantomData<&'b ()>,
}
// position of the first element of the wanted kind in the remaining output (len if there is none)
pub open spec fn first_kv(s: Seq<Data>) -> int
    decreases s.len(),
{
    if s.len() == 0 { 0 } else if s[0] is KeyValue { 0 } else { 1 + first_kv(s.subrange(1, s.len() as int)) }
}
pub open spec fn first_bucket(s: Seq<Data>) -> int
    decreases s.len(),
{
    if s.len() == 0 { 0 } else if s[0] is Bucket { 0 } else { 1 + first_bucket(s.subrange(1, s.len() as int)) }
}
proof fn lemma_first_kv_bounds(s: Seq<Data>)
    ensures 0 <= first_kv(s) <= s.len(), first_kv(s) < s.len() ==> s[first_kv(s)] is KeyValue,
        forall|i: int| 0 <= i < first_kv(s) ==> !(#[trigger] s[i] is KeyValue),
    decreases s.len(),
{
    if s.len() > 0 && !(s[0] is KeyValue) {
        let t = s.subrange(1, s.len() as int);
        lemma_first_kv_bounds(t);
        assert forall|i: int| 0 <= i < first_kv(s) implies !(#[trigger] s[i] is KeyValue) by { if i > 0 { assert(s[i] == t[i - 1]); } }
        if first_kv(s) < s.len() { assert(s[first_kv(s)] == t[first_kv(t)]); }
    }
}
proof fn lemma_first_bucket_bounds(s: Seq<Data>)
    ensures 0 <= first_bucket(s) <= s.len(), first_bucket(s) < s.len() ==> s[first_bucket(s)] is Bucket,
        forall|i: int| 0 <= i < first_bucket(s) ==> !(#[trigger] s[i] is Bucket),
    decreases s.len(),
{
    if s.len() > 0 && !(s[0] is Bucket) {
        let t = s.subrange(1, s.len() as int);
        lemma_first_bucket_bounds(t);
        assert forall|i: int| 0 <= i < first_bucket(s) implies !(#[trigger] s[i] is Bucket) by { if i > 0 { assert(s[i] == t[i - 1]); } }
        if first_bucket(s) < s.len() { assert(s[first_bucket(s)] == t[first_bucket(t)]); }
    }
}
