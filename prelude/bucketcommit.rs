// ---- prelude/bucketcommit.rs: what InnerBucket::{is_dirty, rebalance, spill} are written against (ASSUMED interface) ----
// The open child buckets of a bucket: a hash map from name to handle.  Its iteration order is arbitrary but it lists every
// open child once (`entries`).  The handles form a finite tree: a child's nesting measure is strictly below its parent's.
//@include prelude/bucket_children.rs
impl<'b> BucketMap<'b> {
    #[verifier::external_body]
    fn iter(&self) -> (r: BucketIter<'_, 'b>)
        ensures r.rest() == self.entries(), r.bound() == self.child_bound(),
    { unimplemented!() }
    #[verifier::external_body]
    fn values(&self) -> (r: BucketValues<'_, 'b>)
        ensures r.rest() == self.entries(), r.bound() == self.child_bound(),
    { unimplemented!() }
}
#[verifier::external_body]
pub struct BucketIter<'x, 'b> { _p: core::marker::PhantomData<(&'x (), &'b ())> }
#[verifier::external_body]
pub struct BucketValues<'x, 'b> { _p: core::marker::PhantomData<(&'x (), &'b ())> }
impl<'x, 'b> BucketIter<'x, 'b> {
    pub uninterp spec fn rest(&self) -> Seq<ChildEntry<'b>>;
    pub uninterp spec fn bound(&self) -> nat;
    #[verifier::external_body]
    fn next(&mut self) -> (r: Option<(&'x Bytes<'b>, &'x Rc<RefCell<InnerBucket<'b>>>)>)
        ensures
            final(self).bound() == old(self).bound(),
            old(self).rest().len() == 0 ==> r is None && final(self).rest() == old(self).rest(),
            old(self).rest().len() > 0 ==> (r matches Some((k, c)) && key_view(*k) == old(self).rest()[0].0 && *c == old(self).rest()[0].1
                && final(self).rest() == old(self).rest().drop_first() && (**c).cur().depth@ < old(self).bound() && bucket_wf((**c).cur())),
    { unimplemented!() }
}
impl<'x, 'b> BucketValues<'x, 'b> {
    pub uninterp spec fn rest(&self) -> Seq<ChildEntry<'b>>;
    pub uninterp spec fn bound(&self) -> nat;
    #[verifier::external_body]
    fn next(&mut self) -> (r: Option<&'x Rc<RefCell<InnerBucket<'b>>>>)
        ensures
            final(self).bound() == old(self).bound(),
            old(self).rest().len() == 0 ==> r is None && final(self).rest() == old(self).rest(),
            old(self).rest().len() > 0 ==> (r matches Some(c) && *c == old(self).rest()[0].1
                && final(self).rest() == old(self).rest().drop_first() && (**c).cur().depth@ < old(self).bound() && bucket_wf((**c).cur())),
    { unimplemented!() }
}
// the headers collected from the children: name -> header (stand-in for the local HashMap<Bytes, BucketMeta>)
#[verifier::external_body]
#[verifier::reject_recursive_types(K)]
#[verifier::reject_recursive_types(V)]
pub struct HashMap<K, V> { _p: core::marker::PhantomData<(K, V)> }
impl<'b> HashMap<Bytes<'b>, BucketMeta> {
    pub uninterp spec fn view(&self) -> Map<Seq<u8>, BucketMeta>;
    pub uninterp spec fn count(&self) -> nat;          // HashMap::len: the number of keys
    #[verifier::external_body]
    fn new() -> (r: Self)
        ensures r@ == Map::<Seq<u8>, BucketMeta>::empty(), r.count() == 0,
    { unimplemented!() }
    #[verifier::external_body]
    fn insert(&mut self, k: Bytes<'b>, v: BucketMeta) -> (r: Option<BucketMeta>)
        ensures final(self)@ == old(self)@.insert(key_view(k), v),
            final(self).count() == old(self).count() + (if old(self)@.contains_key(key_view(k)) { 0int } else { 1int }),
    { unimplemented!() }
    // `for (name, meta) in map`: IntoIterator; lists every pair of the map once, in an arbitrary order
    #[verifier::external_body]
    fn into_iter(self) -> (r: MetaIter<'b>)
        ensures listing_of(r.rest(), self@), r.rest().len() == self.count(),
    { unimplemented!() }
}
spec fn listing_of(s: Seq<(Seq<u8>, BucketMeta)>, m: Map<Seq<u8>, BucketMeta>) -> bool {
    &&& forall|i: int| 0 <= i < s.len() ==> m.contains_key(#[trigger] s[i].0) && m[s[i].0] == s[i].1
    &&& forall|i: int, j: int| 0 <= i < j < s.len() ==> (#[trigger] s[i]).0 != (#[trigger] s[j]).0
    &&& forall|k: Seq<u8>| m.contains_key(k) ==> exists|i: int| 0 <= i < s.len() && (#[trigger] s[i]).0 == k
}
#[verifier::external_body]
pub struct MetaIter<'b> { _p: core::marker::PhantomData<&'b ()> }
impl<'b> MetaIter<'b> {
    pub uninterp spec fn rest(&self) -> Seq<(Seq<u8>, BucketMeta)>;
    #[verifier::external_body]
    fn next(&mut self) -> (r: Option<(Bytes<'b>, BucketMeta)>)
        ensures
            old(self).rest().len() == 0 ==> r is None && final(self).rest() == old(self).rest(),
            old(self).rest().len() > 0 ==> (r matches Some((k, m)) && key_view(k) == old(self).rest()[0].0 && m == old(self).rest()[0].1
                && final(self).rest() == old(self).rest().drop_first()),
    { unimplemented!() }
}
// the identity of a nested-bucket entry is a function of its name and header (leaf_tag is the identity the lookups compare)
pub uninterp spec fn bucket_tag(k: Seq<u8>, m: BucketMeta) -> int;
#[verifier::external_body]
proof fn axiom_bucket_tag<'a>()
    ensures forall|n: Bytes<'a>, m: BucketMeta| #[trigger] leaf_tag(Leaf::Bucket(n, m)) == bucket_tag(key_view(n), m),
{
}
// the journal entries spill adds: one per collected header
spec fn puts_of(s: Seq<(Seq<u8>, BucketMeta)>) -> Seq<(Seq<u8>, int)> {
    Seq::new(s.len(), |i: int| (s[i].0, bucket_tag(s[i].0, s[i].1)))
}
// `hs` names open children only, each at most once, and EVERY open child that has changes to write
spec fn ent_has_key<'b>(ents: Seq<ChildEntry<'b>>, k: Seq<u8>) -> bool {
    exists|j: int| 0 <= j < ents.len() && (#[trigger] ents[j]).0 == k
}
#[verifier::opaque]
spec fn hs_has_key(hs: Seq<(Seq<u8>, BucketMeta)>, k: Seq<u8>) -> bool {
    exists|i: int| 0 <= i < hs.len() && (#[trigger] hs[i]).0 == k
}
// the child behind a handle has changes to write (its flag after the flags were propagated upwards by is_dirty)
spec fn child_dirty<'b>(e: ChildEntry<'b>) -> bool { (*e.1).cur().dirty }
#[verifier::opaque]
spec fn same_keys<'b>(hs: Seq<(Seq<u8>, BucketMeta)>, ents: Seq<ChildEntry<'b>>) -> bool {
    &&& forall|i: int, j: int| 0 <= i < j < hs.len() ==> (#[trigger] hs[i]).0 != (#[trigger] hs[j]).0
    &&& forall|i: int| 0 <= i < hs.len() ==> ent_has_key(ents, (#[trigger] hs[i]).0)
    &&& forall|j: int| 0 <= j < ents.len() && child_dirty(#[trigger] ents[j]) ==> hs_has_key(hs, ents[j].0)
}
proof fn lemma_same_keys<'b>(hs: Seq<(Seq<u8>, BucketMeta)>, ents: Seq<ChildEntry<'b>>, hm: Map<Seq<u8>, BucketMeta>)
    requires
        listing_of(hs, hm),
        forall|k: Seq<u8>| #[trigger] hm.contains_key(k) ==> ent_has_key(ents, k),
        forall|j: int| 0 <= j < ents.len() && child_dirty(#[trigger] ents[j]) ==> hm.contains_key(ents[j].0),
    ensures same_keys(hs, ents),
{
    reveal(same_keys);
    assert forall|i: int| 0 <= i < hs.len() implies ent_has_key(ents, (#[trigger] hs[i]).0) by {
        assert(hm.contains_key(hs[i].0));
    }
    assert forall|j: int| 0 <= j < ents.len() && child_dirty(#[trigger] ents[j]) implies hs_has_key(hs, ents[j].0) by {
        reveal(hs_has_key);
        assert(hm.contains_key(ents[j].0));
    }
}
// the allocator-side frame of the tree layer (same predicate the commit unit assumes of rebalance / spill)
//@include prelude/tree_frame_spec.rs
#[verifier::external_body]
proof fn axiom_entries_are_the_open_children<'b>(m: BucketMap<'b>)
    ensures
        forall|i: int| 0 <= i < m.entries().len() ==> m.has(#[trigger] m.entries()[i].0),
        forall|i: int, j: int| 0 <= i < j < m.entries().len() ==> (#[trigger] m.entries()[i]).0 != (#[trigger] m.entries()[j]).0,
{
}
impl<'b> InnerBucket<'b> {
    // bucket.rs merge_nodes (Rc<RefCell<Node>> graph: NOT under contract): frees pages through TxFreelist::free only; may promote
    // a child page to root; touches neither the counter, the dirty flag, the child handles nor the journal
    #[verifier::external_body]
    fn merge_nodes(&mut self, tx_freelist: &mut TxFreelist)
        ensures tree_frame(*old(tx_freelist), *final(tx_freelist)),
            final(self).meta.next_int == old(self).meta.next_int, final(self).dirty == old(self).dirty, final(self).deleted == old(self).deleted,
            final(self).buckets == old(self).buckets, final(self).puts@ == old(self).puts@, final(self).depth@ == old(self).depth@,
            final(self).tree@ == old(self).tree@,
    { unimplemented!() }
}
impl<'n> Node<'n> {
    // node.rs Node::spill (recursion over the Rc<RefCell<Node>> graph: NOT under contract): allocates and frees through the
    // TxFreelist API only; a root (no parent) answers with the page it was written to; the bucket's header, flags, handles
    // and journal are not touched
    #[verifier::external_body]
    fn spill<'a>(&'a mut self, bucket: &'a mut InnerBucket<'n>, tx_freelist: &'a mut TxFreelist, parent: Option<&'a mut Self>) -> (r: Result<Option<PageID>>)
        ensures tree_frame(*old(tx_freelist), *final(tx_freelist)), !(r matches Err(Error::ReadOnlyTx)),
            parent is None ==> (r matches Ok(o) ==> o matches Some(p) && p > 1),
            final(bucket).meta == old(bucket).meta, final(bucket).dirty == old(bucket).dirty, final(bucket).deleted == old(bucket).deleted,
            final(bucket).buckets == old(bucket).buckets, final(bucket).puts@ == old(bucket).puts@, final(bucket).depth@ == old(bucket).depth@,
            final(bucket).tree@ == old(bucket).tree@,
    { unimplemented!() }
}
