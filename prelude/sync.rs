// ---- prelude/sync.rs: stand-ins for std::sync::{Mutex, MutexGuard, RwLock, PoisonError} (assumed contracts) ----
// Sequential view (DESIGN 2.4): `cur()` is the value the mutex holds when this call locks it, `fin()` the value it is
// left with.  No function under contract locks the same mutex twice.  Locks are never poisoned.
#[verifier::external_body]
#[verifier::reject_recursive_types(T)]
pub struct Mutex<T> { _p: core::marker::PhantomData<T> }

// The guard is a REAL struct holding the mutable borrow of the guarded value (this Verus resolves the borrow's
// prophecy when the guard dies), so what a function leaves in a mutex needs no inserted event: `fin()`.
pub struct MutexGuard<'a, T> { pub inner: &'a mut T }
impl<'a, T> MutexGuard<'a, T> {
    pub open spec fn view(&self) -> T { *self.inner }
}

#[verifier::external_body]
#[verifier::reject_recursive_types(T)]
pub struct PoisonError<T> { _p: core::marker::PhantomData<T> }
#[verifier::external]
impl<T> core::fmt::Debug for PoisonError<T> {
    fn fmt(&self, _f: &mut core::fmt::Formatter<'_>) -> core::fmt::Result { Ok(()) }
}

impl<T> Mutex<T> {
    pub uninterp spec fn cur(&self) -> T;
    #[verifier::external_body]
    pub fn new(v: T) -> (r: Mutex<T>)
        ensures r.cur() == v,
    { unimplemented!() }
    // the value the mutex holds once the guard taken by the function under contract is gone (end of its scope, or the
    // end of the statement for a temporary guard)
    pub uninterp spec fn fin(&self) -> T;
    #[verifier::external_body]
    pub fn lock(&self) -> (r: core::result::Result<MutexGuard<'_, T>, PoisonError<MutexGuard<'_, T>>>)
        ensures r is Ok, r->Ok_0@ == self.cur(), *final(r->Ok_0.inner) == self.fin(),
    { unimplemented!() }
}
impl<'a, T> core::ops::Deref for MutexGuard<'a, T> {
    type Target = T;
    fn deref(&self) -> (r: &T)
        ensures *r == self@,
    { &*self.inner }
}
impl<'a, T> core::ops::DerefMut for MutexGuard<'a, T> {
    fn deref_mut(&mut self) -> (r: &mut T)
        ensures *r == old(self)@, final(self)@ == *final(r), *final(final(self).inner) == *final(old(self).inner),
    { &mut *self.inner }
}

#[verifier::external_body]
#[verifier::reject_recursive_types(T)]
pub struct RwLock<T> { _p: core::marker::PhantomData<T> }
#[verifier::external_body]
#[verifier::reject_recursive_types(T)]
pub struct RwLockReadGuard<'a, T> { _p: core::marker::PhantomData<&'a T> }
#[verifier::external_body]
#[verifier::reject_recursive_types(T)]
pub struct RwLockWriteGuard<'a, T> { _p: core::marker::PhantomData<&'a T> }
impl<T> RwLock<T> {
    #[verifier::external_body]
    pub fn new(v: T) -> (r: RwLock<T>)
    { unimplemented!() }
    #[verifier::external_body]
    pub fn read(&self) -> (r: core::result::Result<RwLockReadGuard<'_, T>, PoisonError<RwLockReadGuard<'_, T>>>)
        ensures r is Ok,
    { unimplemented!() }
    #[verifier::external_body]
    pub fn write(&self) -> (r: core::result::Result<RwLockWriteGuard<'_, T>, PoisonError<RwLockWriteGuard<'_, T>>>)
        ensures r is Ok,
    { unimplemented!() }
}
