// ---- prelude/sync.rs: stand-ins for std::sync::{Mutex, MutexGuard, RwLock, PoisonError} (assumed contracts) ----
// Sequential view (DESIGN 2.4): `cur()` is the value the mutex holds when this call locks it.  No
// function under contract locks the same mutex twice with a write in between.  Locks are never poisoned.
#[verifier::external_body]
#[verifier::reject_recursive_types(T)]
pub struct Mutex<T> { _p: core::marker::PhantomData<T> }

#[verifier::external_body]
#[verifier::reject_recursive_types(T)]
pub struct MutexGuard<'a, T> { _p: core::marker::PhantomData<&'a T> }

#[verifier::external_body]
#[verifier::reject_recursive_types(T)]
pub struct PoisonError<T> { _p: core::marker::PhantomData<T> }
#[verifier::external]
impl<T> core::fmt::Debug for PoisonError<T> {
    fn fmt(&self, _f: &mut core::fmt::Formatter<'_>) -> core::fmt::Result { Ok(()) }
}

impl<T> Mutex<T> {
    pub uninterp spec fn cur(&self) -> T;
    #[verifier::external_body]
    pub fn new(v: T) -> (r: Mutex<T>)
        ensures r.cur() == v,
    { unimplemented!() }
    #[verifier::external_body]
    pub fn lock(&self) -> (r: core::result::Result<MutexGuard<'_, T>, PoisonError<MutexGuard<'_, T>>>)
        ensures r is Ok, r->Ok_0@ == self.cur(), r->Ok_0.of() == self,
    { unimplemented!() }
}
impl<T> Mutex<T> {
    // the value the mutex holds once the guard taken by the function under contract has been dropped
    pub uninterp spec fn fin(&self) -> T;
}
// ghost event "the guard goes out of scope here" (inserted by the contract at the end of the guard's scope, anchor
// `scope-end`): Rust drops the guard there, which publishes the guarded value.  Assumed (drop is not modelled by Verus).
#[verifier::external_body]
pub proof fn guard_released<T>(g: &MutexGuard<'_, T>)
    ensures g.of().fin() == g@,
{ unimplemented!() }
impl<'a, T> MutexGuard<'a, T> {
    pub uninterp spec fn view(&self) -> T;
    pub uninterp spec fn of(&self) -> &'a Mutex<T>;     // the mutex this guard belongs to
}
impl<'a, T> core::ops::Deref for MutexGuard<'a, T> {
    type Target = T;
    #[verifier::external_body]
    fn deref(&self) -> (r: &T)
        ensures *r == self@,
    { unimplemented!() }
}
impl<'a, T> core::ops::DerefMut for MutexGuard<'a, T> {
    #[verifier::external_body]
    fn deref_mut(&mut self) -> (r: &mut T)
        ensures *r == old(self)@, final(self)@ == *final(r), final(self).of() == old(self).of(),
    { unimplemented!() }
}

#[verifier::external_body]
#[verifier::reject_recursive_types(T)]
pub struct RwLock<T> { _p: core::marker::PhantomData<T> }
#[verifier::external_body]
#[verifier::reject_recursive_types(T)]
pub struct RwLockReadGuard<'a, T> { _p: core::marker::PhantomData<&'a T> }
#[verifier::external_body]
#[verifier::reject_recursive_types(T)]
pub struct RwLockWriteGuard<'a, T> { _p: core::marker::PhantomData<&'a T> }
impl<T> RwLock<T> {
    #[verifier::external_body]
    pub fn new(v: T) -> (r: RwLock<T>)
    { unimplemented!() }
    #[verifier::external_body]
    pub fn read(&self) -> (r: core::result::Result<RwLockReadGuard<'_, T>, PoisonError<RwLockReadGuard<'_, T>>>)
        ensures r is Ok,
    { unimplemented!() }
    #[verifier::external_body]
    pub fn write(&self) -> (r: core::result::Result<RwLockWriteGuard<'_, T>, PoisonError<RwLockWriteGuard<'_, T>>>)
        ensures r is Ok,
    { unimplemented!() }
}
