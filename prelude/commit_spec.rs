// ---- prelude/commit_spec.rs: vocabulary for what a commit does to the file (trace events) ----
spec fn is_prefix(a: Seq<IoEv>, b: Seq<IoEv>) -> bool {
    a.len() <= b.len() && forall|i: int| 0 <= i < a.len() ==> a[i] == b[i]
}
// header pages live at offsets 0 and ps; every other page at ps * k, k >= 2
spec fn is_hdr_write(e: IoEv, ps: int) -> bool {
    e matches IoEv::Write { off, .. } && off < 2 * ps
}
spec fn is_data_write(e: IoEv, ps: int) -> bool {
    e matches IoEv::Write { off, .. } && off >= 2 * ps
}
// a data write targets exactly one page allocated in this transaction and carries that page's bytes
spec fn data_write_ok(e: IoEv, ps: int, pages: Map<u64, (NonNull<u8>, usize)>) -> bool {
    e matches IoEv::Write { off, bytes } ==>
        exists|k: u64| #![trigger pages.contains_key(k)] pages.contains_key(k) && k > 1 && off == ps * k && bytes.len() == pages[k].1
}
spec fn page_written(t: Seq<IoEv>, from: int, ps: int, k: u64) -> bool {
    exists|i: int| from <= i < t.len() && (#[trigger] t[i] matches IoEv::Write { off, .. } && off == ps * k)
}
spec fn has_hdr_write(t: Seq<IoEv>, from: int, ps: int) -> bool {
    exists|i: int| from <= i < t.len() && is_hdr_write(#[trigger] t[i], ps)
}
spec fn sync_between(t: Seq<IoEv>, i: int, j: int) -> bool {
    exists|s: int| i < s < j && #[trigger] t[s] == IoEv::Sync
}
// the header that commit writes: the transaction's meta, in the other slot, with a fresh checksum
spec fn slot_of(m: Meta) -> u64 { if m.meta_page == 0 { 1 } else { 0 } }
spec fn header_for(m: Meta) -> Meta {
    let h0 = Meta { meta_page: slot_of(m) as u32, magic: m.magic, version: m.version, pagesize: m.pagesize, root: m.root,
                    num_pages: m.num_pages, freelist_page: m.freelist_page, tx_id: m.tx_id, hash: 0 };
    Meta { hash: fnv1a(meta_bytes(h0)), ..h0 }
}
spec fn hdr_write_ok(e: IoEv, ps: int, m: Meta) -> bool {
    e matches IoEv::Write { off, bytes } ==> {
        &&& off == ps * slot_of(m)
        &&& bytes.len() == ps
        &&& page_view(bytes, 0, ps).id == slot_of(m)
        &&& page_view(bytes, 0, ps).page_type == 3
        &&& same_header_fields(meta_view(bytes, 0, ps), header_for(m))
    }
}
// next_int of the root is part of `root`; hash compared via the 60 bytes + stored hash
spec fn same_header_fields(a: Meta, b: Meta) -> bool {
    a.meta_page == b.meta_page && a.magic == b.magic && a.version == b.version && a.pagesize == b.pagesize
        && a.root == b.root && a.num_pages == b.num_pages && a.freelist_page == b.freelist_page && a.tx_id == b.tx_id
        && a.hash == b.hash
}

spec fn lock_trace(l: TxLock) -> Seq<IoEv> {
    match l { TxLock::Rw(g) => g@.trace(), TxLock::Ro(_) => Seq::empty() }
}
spec fn lock_file(l: TxLock) -> File
    recommends l is Rw,
{
    match l { TxLock::Rw(g) => g@, TxLock::Ro(_) => arbitrary() }
}
// the header record (bytes 32..104 of the page) is complete once 104 bytes of the page have been written
spec fn failed_header_write_reached_the_file(t0: Seq<IoEv>, l: TxLock, ps: int) -> bool {
    lock_trace(l).len() > t0.len()      // an event of THIS call
        && (lock_trace(l).last() matches IoEv::WriteFailed { off } && off < 2 * ps) && lock_file(l).short_prefix() >= 104
}
spec fn meta_frame(a: Meta, b: Meta) -> bool {
    a.meta_page == b.meta_page && a.magic == b.magic && a.version == b.version && a.pagesize == b.pagesize
        && a.root == b.root && a.tx_id == b.tx_id
}

// ---- the clauses of write_data's contract (t0 = trace at entry, t = trace at exit) ----
// The clause predicates are opaque: the body of write_data is verified against the lemmas below only.
// (w1) every data-page write targets a page allocated in this transaction, with that page's length
#[verifier::opaque]
spec fn w1_data_writes(t0: Seq<IoEv>, t: Seq<IoEv>, ps: int, pages: Map<u64, (NonNull<u8>, usize)>) -> bool {
    forall|i: int| t0.len() <= i < t.len() ==> data_write_ok(#[trigger] t[i], ps, pages) || is_hdr_write(t[i], ps)
}
// (w2) a header write goes to the other slot and carries exactly the transaction's meta with a fresh checksum
#[verifier::opaque]
spec fn w2_header_content(t0: Seq<IoEv>, t: Seq<IoEv>, ps: int, m: Meta) -> bool {
    forall|i: int| t0.len() <= i < t.len() && is_hdr_write(#[trigger] t[i], ps) ==> hdr_write_ok(t[i], ps, m)
}
#[verifier::opaque]
spec fn w2_header_is_last_write(t0: Seq<IoEv>, t: Seq<IoEv>, ps: int) -> bool {
    forall|i: int, j: int| t0.len() <= i < j < t.len() && is_hdr_write(#[trigger] t[i], ps) ==> !(#[trigger] t[j] is Write)
}
// (w3) ORDER: every data write is followed by a completed sync before the header write
#[verifier::opaque]
spec fn w3_data_durable_before_header(t0: Seq<IoEv>, t: Seq<IoEv>, ps: int) -> bool {
    forall|i: int, j: int| t0.len() <= i < j < t.len() && is_data_write(#[trigger] t[i], ps) && is_hdr_write(#[trigger] t[j], ps)
        ==> sync_between(t, i, j)
}
#[verifier::opaque]
spec fn w3_header_durable(t0: Seq<IoEv>, t: Seq<IoEv>, ps: int) -> bool {
    exists|h: int| t0.len() <= h < t.len() && is_hdr_write(#[trigger] t[h], ps) && sync_between(t, h, t.len() as int)
}
#[verifier::opaque]
spec fn w3_all_pages_written(t0: Seq<IoEv>, t: Seq<IoEv>, ps: int, pages: Map<u64, (NonNull<u8>, usize)>) -> bool {
    forall|k: u64| #![trigger pages.contains_key(k)] pages.contains_key(k) ==> page_written(t, t0.len() as int, ps, k)
}
#[verifier::opaque]
spec fn hdr_written(t0: Seq<IoEv>, t: Seq<IoEv>, ps: int) -> bool { has_hdr_write(t, t0.len() as int, ps) }

// ---- trace shapes reached by the code, and what they imply ----
// data phase: nothing but page writes (and seeks / flushes / syncs / failures) since t0
#[verifier::opaque]
spec fn data_phase(t0: Seq<IoEv>, t: Seq<IoEv>, ps: int, pages: Map<u64, (NonNull<u8>, usize)>) -> bool {
    is_prefix(t0, t) && forall|i: int| t0.len() <= i < t.len() ==> !is_hdr_write(#[trigger] t[i], ps) && data_write_ok(t[i], ps, pages)
}
proof fn lemma_data_phase_start(t0: Seq<IoEv>, ps: int, pages: Map<u64, (NonNull<u8>, usize)>)
    ensures data_phase(t0, t0, ps, pages),
{
    reveal(data_phase);
}
proof fn lemma_data_phase_push(t0: Seq<IoEv>, t: Seq<IoEv>, e: IoEv, ps: int, pages: Map<u64, (NonNull<u8>, usize)>)
    requires data_phase(t0, t, ps, pages), !is_hdr_write(e, ps), data_write_ok(e, ps, pages),
    ensures data_phase(t0, t.push(e), ps, pages), is_prefix(t, t.push(e)),
{
    reveal(data_phase);
    let t2 = t.push(e);
    assert forall|i: int| t0.len() <= i < t2.len() implies !is_hdr_write(#[trigger] t2[i], ps) && data_write_ok(t2[i], ps, pages) by {
        if i < t.len() { assert(t2[i] == t[i]); }
    }
}
proof fn lemma_data_phase_pages_grow(t0: Seq<IoEv>, t: Seq<IoEv>, ps: int, p1: Map<u64, (NonNull<u8>, usize)>, p2: Map<u64, (NonNull<u8>, usize)>)
    requires data_phase(t0, t, ps, p1), forall|k: u64| p1.contains_key(k) ==> p2.contains_key(k) && p2[k] == p1[k],
    ensures data_phase(t0, t, ps, p2),
{
    reveal(data_phase);
    assert forall|i: int| t0.len() <= i < t.len() implies !is_hdr_write(#[trigger] t[i], ps) && data_write_ok(t[i], ps, p2) by {
        assert(data_write_ok(t[i], ps, p1));
        match t[i] {
            IoEv::Write { off, bytes } => {
                let k = choose|k: u64| #![trigger p1.contains_key(k)] p1.contains_key(k) && k > 1 && off == ps * k && bytes.len() == p1[k].1;
                assert(p2.contains_key(k));
            },
            _ => {},
        }
    }
}
// an exit during the data phase satisfies every clause (no header write has happened)
proof fn lemma_data_phase_post(t0: Seq<IoEv>, t: Seq<IoEv>, ps: int, pages: Map<u64, (NonNull<u8>, usize)>, m: Meta)
    requires data_phase(t0, t, ps, pages),
    ensures
        is_prefix(t0, t), w1_data_writes(t0, t, ps, pages), w2_header_content(t0, t, ps, m), w2_header_is_last_write(t0, t, ps),
        w3_data_durable_before_header(t0, t, ps), !hdr_written(t0, t, ps),
{
    reveal(data_phase); reveal(w1_data_writes); reveal(w2_header_content); reveal(w2_header_is_last_write);
    reveal(w3_data_durable_before_header); reveal(hdr_written);
}
proof fn lemma_page_written_last(t: Seq<IoEv>, from: int, ps: int, k: u64, bytes: Seq<u8>)
    requires t.len() > from >= 0, t.last() == (IoEv::Write { off: (ps * k) as u64, bytes }), 0 <= ps * k <= u64::MAX,
    ensures page_written(t, from, ps, k),
{
    assert(t[t.len() - 1] matches IoEv::Write { off, .. } && off == ps * k);
}
proof fn lemma_page_written_mono(t: Seq<IoEv>, t2: Seq<IoEv>, from: int, ps: int, k: u64)
    requires is_prefix(t, t2), page_written(t, from, ps, k), from >= 0,
    ensures page_written(t2, from, ps, k),
{
    let i = choose|i: int| from <= i < t.len() && (#[trigger] t[i] matches IoEv::Write { off, .. } && off == ps * k);
    assert(t2[i] == t[i]);
}
proof fn lemma_all_written_intro(t0: Seq<IoEv>, t: Seq<IoEv>, ps: int, pages: Map<u64, (NonNull<u8>, usize)>)
    requires forall|k: u64| #![trigger pages.contains_key(k)] pages.contains_key(k) ==> page_written(t, t0.len() as int, ps, k),
    ensures w3_all_pages_written(t0, t, ps, pages),
{
    reveal(w3_all_pages_written);
}
proof fn lemma_all_written_mono(t0: Seq<IoEv>, t: Seq<IoEv>, t2: Seq<IoEv>, ps: int, pages: Map<u64, (NonNull<u8>, usize)>)
    requires is_prefix(t, t2), w3_all_pages_written(t0, t, ps, pages),
    ensures w3_all_pages_written(t0, t2, ps, pages),
{
    reveal(w3_all_pages_written);
    assert forall|k: u64| #![trigger pages.contains_key(k)] pages.contains_key(k) implies page_written(t2, t0.len() as int, ps, k) by {
        lemma_page_written_mono(t, t2, t0.len() as int, ps, k);
    }
}
proof fn lemma_prefix_push(t: Seq<IoEv>, e: IoEv)
    ensures is_prefix(t, t.push(e)),
{
}
proof fn lemma_prefix_trans(a: Seq<IoEv>, b: Seq<IoEv>, c: Seq<IoEv>)
    requires is_prefix(a, b), is_prefix(b, c),
    ensures is_prefix(a, c),
{
}
// header phase: t1 ends the data phase with a completed sync; then the header is written
spec fn hdr_event(e: IoEv, ps: int, m: Meta) -> bool {
    e is Write && is_hdr_write(e, ps) && hdr_write_ok(e, ps, m)
}
proof fn lemma_hdr_phase_post(t0: Seq<IoEv>, t1: Seq<IoEv>, t: Seq<IoEv>, ps: int, pages: Map<u64, (NonNull<u8>, usize)>, m: Meta, hw: IoEv, n_after: int)
    requires
        ps > 0,
        data_phase(t0, t1, ps, pages), t1.len() > t0.len(), t1.last() == IoEv::Sync,
        is_prefix(t1, t), t.len() == t1.len() + 2 + n_after, 0 <= n_after <= 2,
        t[t1.len() as int] is Seek, t[t1.len() as int + 1] == hw, hdr_event(hw, ps, m),
        n_after >= 1 ==> (t[t1.len() as int + 2] == IoEv::Flush || t[t1.len() as int + 2] == IoEv::FlushFailed),
        n_after >= 2 ==> t[t1.len() as int + 2] == IoEv::Flush && (t[t1.len() as int + 3] == IoEv::Sync || t[t1.len() as int + 3] == IoEv::SyncFailed),
        w3_all_pages_written(t0, t1, ps, pages),
    ensures
        w3_all_pages_written(t0, t, ps, pages),
        is_prefix(t0, t), w1_data_writes(t0, t, ps, pages), w2_header_content(t0, t, ps, m), w2_header_is_last_write(t0, t, ps),
        w3_data_durable_before_header(t0, t, ps), hdr_written(t0, t, ps),
        n_after == 2 && t.last() == IoEv::Sync ==> w3_header_durable(t0, t, ps),
{
    reveal(data_phase); reveal(w1_data_writes); reveal(w2_header_content); reveal(w2_header_is_last_write);
    reveal(w3_data_durable_before_header); reveal(hdr_written); reveal(w3_header_durable);
    lemma_all_written_mono(t0, t1, t, ps, pages);
    let h = t1.len() as int;
    assert forall|i: int| t0.len() <= i < t.len() implies data_write_ok(#[trigger] t[i], ps, pages) || is_hdr_write(t[i], ps) by {
        if i < t1.len() { assert(t[i] == t1[i]); }
    }
    assert forall|i: int| t0.len() <= i < t.len() && is_hdr_write(#[trigger] t[i], ps) implies hdr_write_ok(t[i], ps, m) by {
        if i < t1.len() { assert(t[i] == t1[i]); }
    }
    assert forall|i: int, j: int| t0.len() <= i < j < t.len() && is_hdr_write(#[trigger] t[i], ps) implies !(#[trigger] t[j] is Write) by {
        if i < t1.len() { assert(t[i] == t1[i]); }
    }
    assert forall|i: int, j: int| t0.len() <= i < j < t.len() && is_data_write(#[trigger] t[i], ps) && is_hdr_write(#[trigger] t[j], ps)
        implies sync_between(t, i, j) by {
        if j < t1.len() { assert(t[j] == t1[j]); }
        // j is the header write at h + 1; the sync that ends the data phase sits at h - 1 > i
        assert(t[h - 1] == t1[h - 1]);
        if i == h - 1 { assert(t[i] == IoEv::Sync); }
        assert(i < h - 1 < j && t[h - 1] == IoEv::Sync);
    }
    assert(is_hdr_write(t[h + 1], ps));
    assert(has_hdr_write(t, t0.len() as int, ps));
    if n_after == 2 && t.last() == IoEv::Sync {
        assert(t[h + 3] == IoEv::Sync);
        assert(sync_between(t, h + 1, t.len() as int));
    }
}

// size bound of write_data: everything this commit can address fits in u64, including one 8 MiB growth step
spec fn wd_fits(t: TxInner, f: TxFreelist) -> bool {
    let ps = t.db.inner.pagesize as int;
    let list_bytes = 40 + 8 * (f.inner.total_len() + t.num_freelist_pages);
    &&& list_bytes <= u64::MAX
    &&& (f.meta.num_pages + pages_for(list_bytes as u64, ps as u64)) * ps + 2 * 8 * 1024 * 1024 <= u64::MAX
}

