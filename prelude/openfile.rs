// ---- prelude/openfile.rs: opening, locking, allocating and mapping the file (assumed contracts) ----
#[verifier::external_body]
pub struct Path { _private: () }
impl Path {
    pub uninterp spec fn exists_spec(&self) -> bool;
    #[verifier::external_body]
    pub fn exists(&self) -> (r: bool)
        ensures r == self.exists_spec(),
    { unimplemented!() }
}
// stub U15: `path.as_ref()` for P: AsRef<Path>
pub uninterp spec fn path_of<P>(p: P) -> Path;
#[verifier::external_body]
fn as_ref_path<P: AsRef<Path>>(p: &P) -> (r: &Path)
    ensures *r == path_of(*p),
{ unimplemented!() }
impl File {
    // fs4::FileExt::allocate(&self, len): on Ok the file is at least len bytes long; no byte of it is written
    #[verifier::external_body]
    pub fn allocate(&self, len: u64) -> (r: core::result::Result<(), std::io::Error>)
        ensures r is Ok ==> self.allocated_at_least(len),
    { unimplemented!() }
    // fs4::FileExt::lock_exclusive(&self): blocks until the advisory lock is held
    #[verifier::external_body]
    pub fn lock_exclusive(&self) -> (r: core::result::Result<(), std::io::Error>)
        ensures r is Ok ==> self.lock_held(), r is Err ==> self.lock_refused(),
    { unimplemented!() }
}
// db.rs `open_file(path, create, direct_write)`: opens (create => create_new) read+write; nothing is written
#[verifier::external_body]
fn open_file(path: &Path, create: bool, direct_write: bool) -> (r: Result<File>)
    ensures r matches Ok(f) ==> f.trace() == Seq::<IoEv>::empty() && f.pos() == 0,

{ unimplemented!() }
// db.rs `mmap(file, populate)`: maps the whole file read-only; the map covers every allocated byte
#[verifier::external_body]
fn mmap(file: &File, populate: bool) -> (r: Result<Mmap>)
    ensures r matches Ok(m) ==> map_of(*file, m) && forall|n: u64| file.allocated_at_least(n) ==> m@.len() >= n,
        r is Err ==> file.map_refused(),

{ unimplemented!() }
// page_size::get()
#[verifier::external_body]
fn get_page_size() -> (r: usize)
    ensures r % 8 == 0,     // ASSUMED: OS page sizes are multiples of 8
{ unimplemented!() }

// stub U13: the closure `get_page` in init_file: `&mut *(&mut buf[(index * pagesize) as usize] as *mut u8 as *mut Page)`
pub uninterp spec fn buf_all_zero(b: Seq<u8>) -> bool;
#[verifier::external_body]
fn buf_page_at_mut<'a>(buf: &'a mut Vec<u8>, index: u64, pagesize: u64) -> (r: &'a mut Page)
    requires
        (index * pagesize) % 8 == 0,
        index * pagesize + 40 + 72 <= old(buf)@.len(),
    ensures
        final(buf)@.len() == old(buf)@.len(),
        // the view handed out is what the buffer holds ...
        r.id == page_view(old(buf)@, index as int, pagesize as int).id,
        r.page_type == page_view(old(buf)@, index as int, pagesize as int).page_type,
        r.count == page_view(old(buf)@, index as int, pagesize as int).count,
        r.overflow == page_view(old(buf)@, index as int, pagesize as int).overflow,
        meta_rec(*r) == meta_view(old(buf)@, index as int, pagesize as int),
        // ... and what is left in it afterwards is what was written through the view
        page_view(final(buf)@, index as int, pagesize as int).id == final(r).id,
        page_view(final(buf)@, index as int, pagesize as int).page_type == final(r).page_type,
        page_view(final(buf)@, index as int, pagesize as int).count == final(r).count,
        page_view(final(buf)@, index as int, pagesize as int).overflow == final(r).overflow,
        meta_view(final(buf)@, index as int, pagesize as int) == meta_rec(*final(r)),
        // other pages of the buffer are untouched
        forall|j: int| j != index && 0 <= j ==> #[trigger] page_view(final(buf)@, j, pagesize as int) == page_view(old(buf)@, j, pagesize as int),
        forall|j: int| j != index && 0 <= j ==> #[trigger] meta_view(final(buf)@, j, pagesize as int) == meta_view(old(buf)@, j, pagesize as int),
{ unimplemented!() }
// a zeroed buffer shows zeroed headers (layout: K1)
#[verifier::external_body]
proof fn axiom_zero_buffer_views(b: Seq<u8>, j: int, ps: int)
    requires forall|i: int| 0 <= i < b.len() ==> b[i] == 0u8, 0 <= j, j * ps + 112 <= b.len(),
    ensures
        page_view(b, j, ps).id == 0 && page_view(b, j, ps).page_type == 0 && page_view(b, j, ps).count == 0 && page_view(b, j, ps).overflow == 0,
        meta_view(b, j, ps).tx_id == 0 && meta_view(b, j, ps).root.next_int == 0,
{
}
