// ---- prelude/bucketops.rs: the interface InnerBucket's own mutators are written against (ASSUMED contracts) ----
// InnerBucket is a graph of Rc<RefCell<..>> / HashMap<Bytes,..> / mmap pointers; its struct is represented by the
// fields the functions under contract touch plus a ghost counter `muts` that every operation which prepares or
// performs a change of the in-memory tree bumps (materialising a node with `node()`, so that it can be edited).
// "A call that returns an error changes nothing" then reads: dirty, meta and muts are as before.
//@include prelude/cell.rs
#[verifier::external_body]
pub struct Bytes<'a> { _p: core::marker::PhantomData<&'a ()> }
// the bytes of a key, whatever it is passed as
pub uninterp spec fn key_view<T>(k: T) -> Seq<u8>;
#[verifier::external_body]
pub proof fn axiom_key_views<'a>()
    ensures
        forall|b: &Bytes<'a>| #[trigger] key_view::<&Bytes<'a>>(b) == key_view::<Bytes<'a>>(*b),
{
}
#[verifier::external_body]
pub struct BucketMap<'b> { _p: core::marker::PhantomData<&'b ()> }
impl<'b> BucketMap<'b> {
    pub uninterp spec fn has(&self, k: Seq<u8>) -> bool;
    // the handle (cell) registered under a name; meaningful where has(k)
    pub uninterp spec fn cell(&self, k: Seq<u8>) -> Rc<RefCell<InnerBucket<'b>>>;
    #[verifier::external_body]
    fn remove(&mut self, k: &Bytes<'b>) -> (r: Option<Rc<RefCell<InnerBucket<'b>>>>)
        ensures r matches Some(rc) ==> child_root_ok((*rc).cur()) && rc == old(self).cell(key_view(*k)),
            old(self).has(key_view(*k)) ==> r is Some,
    { unimplemented!() }
}
pub struct InnerBucket<'b> {
    pub meta: BucketMeta,
    pub deleted: bool,
    pub dirty: bool,
    pub buckets: BucketMap<'b>,
    pub pages: Pages,
    pub muts: Ghost<nat>,
    pub tree: Ghost<int>,        // names the (abstract) in-memory tree this bucket value holds
    // ghost journal: the entries (key, identity) stored through put_leaf, in order (appended by a proof hint next to the real
    // `insert_data` call); lets InnerBucket::spill say WHICH child-bucket headers it re-stored
    pub puts: Ghost<Seq<(Seq<u8>, int)>>,
    pub depth: Ghost<nat>,       // nesting measure: open child buckets are strictly lower (the handles form a finite tree; ASSUMED)
}
// shape of the abstract tree: does slot i of node id exist, and is it a key/value pair (as opposed to a nested bucket)?
pub uninterp spec fn slot_exists(t: int, id: PageNodeID, i: int) -> bool;
pub uninterp spec fn slot_is_kv(t: int, id: PageNodeID, i: int) -> bool;
pub uninterp spec fn slot_key(t: int, id: PageNodeID, i: int) -> Seq<u8>;
// does the tree hold an entry with this key, and is it a nested bucket?
pub uninterp spec fn has_entry(t: int, k: Seq<u8>) -> bool;
pub uninterp spec fn entry_is_bucket(t: int, k: Seq<u8>) -> bool;
// identity of an entry (its key, kind and payload), of the entry in a slot and of the entry the tree holds for a key
pub uninterp spec fn leaf_tag(l: Leaf) -> int;
pub uninterp spec fn slot_tag(t: int, id: PageNodeID, i: int) -> int;
pub uninterp spec fn entry_tag(t: int, k: Seq<u8>) -> int;
pub enum Leaf<'a> {
    Bucket(Bytes<'a>, BucketMeta),
    Kv(Bytes<'a>, Bytes<'a>),
}
pub struct Node<'n> { pub _p: core::marker::PhantomData<&'n ()>, pub g_tree: Ghost<int>, pub g_id: Ghost<PageNodeID> }
pub struct PageNode<'a> { pub _p: core::marker::PhantomData<&'a ()>, pub g_tree: Ghost<int>, pub g_id: Ghost<PageNodeID> }
impl<'a> Leaf<'a> {
    #[verifier::external_body]
    pub fn key(&self) -> (r: &[u8])
        ensures r@ == leaf_key(*self),
    { unimplemented!() }
}
// the key of an entry: the bytes of its first component
pub open spec fn leaf_key(l: Leaf) -> Seq<u8> {
    match l { Leaf::Kv(k, _) => key_view(k), Leaf::Bucket(n, _) => key_view(n) }
}
impl<'a> PageNode<'a> {
    #[verifier::external_body]
    pub fn val<'b>(&'b self, index: usize) -> (r: Option<Leaf<'a>>)
        ensures
            r is Some <==> slot_exists(self.g_tree@, self.g_id@, index as int),
            r matches Some(l) ==> (l is Kv) == slot_is_kv(self.g_tree@, self.g_id@, index as int),
            r matches Some(Leaf::Bucket(n, _)) ==> key_view(n) == slot_key(self.g_tree@, self.g_id@, index as int),
            r matches Some(l) ==> leaf_tag(l) == slot_tag(self.g_tree@, self.g_id@, index as int),
    { unimplemented!() }
}
impl<'n> Node<'n> {
    #[verifier::external_body]
    pub fn delete<'a>(&'a mut self, index: usize) -> (r: Leaf<'n>)
        requires slot_exists(old(self).g_tree@, old(self).g_id@, index as int),
        ensures (r is Kv) == slot_is_kv(old(self).g_tree@, old(self).g_id@, index as int),
    { unimplemented!() }
    #[verifier::external_body]
    pub fn insert_data<'a>(&'a mut self, leaf: Leaf<'n>)
    { unimplemented!() }
}
// a nested bucket's root is a tree page of the file (or 0: created in this transaction, never committed)
spec fn child_root_ok(bk: InnerBucket) -> bool { bk.meta.root_page != 0 ==> tree_page(bk.meta.root_page) }
// what a mutator may leave unchanged / what counts as "nothing happened"
spec fn untouched(a: InnerBucket, b: InnerBucket) -> bool {
    a.meta == b.meta && a.deleted == b.deleted && a.dirty == b.dirty && a.muts@ == b.muts@ && a.tree@ == b.tree@ && a.puts@ == b.puts@
        && a.depth@ == b.depth@
}
// stub U16: `key.as_ref()` for T: AsRef<[u8]>
#[verifier::external_body]
fn as_ref_bytes<T: AsRef<[u8]>>(k: &T) -> (r: &[u8])
    ensures r@ == key_view(*k),
{ unimplemented!() }
// cursor.rs `search`: a lookup; it records parent links (bookkeeping) but does not edit the tree
#[verifier::external_body]
fn search(key: &[u8], page_id: PageID, b: &mut InnerBucket) -> (r: (bool, Vec<SearchPath>))
    ensures untouched(*final(b), *old(b)), r.1@.len() >= 1,
        r.0 ==> slot_exists(old(b).tree@, r.1@.last().id, r.1@.last().index as int),
        r.0 == has_entry(old(b).tree@, key@),
        r.0 ==> slot_key(old(b).tree@, r.1@.last().id, r.1@.last().index as int) == key@,
        final(b).buckets == old(b).buckets,
        r.0 ==> slot_is_kv(old(b).tree@, r.1@.last().id, r.1@.last().index as int) == !entry_is_bucket(old(b).tree@, key@),
        r.0 ==> slot_tag(old(b).tree@, r.1@.last().id, r.1@.last().index as int) == entry_tag(old(b).tree@, key@),
{ unimplemented!() }
impl<'b> InnerBucket<'b> {
    #[verifier::external_body]
    fn page_node<'a>(&'a self, id: PageNodeID) -> (r: PageNode<'b>)
        ensures r.g_tree@ == self.tree@, r.g_id@ == id,
    { unimplemented!() }
    // materialises the node for editing: the first step of every change
    #[verifier::external_body]
    fn node<'a>(&'a mut self, id: PageNodeID, parent: Option<&mut Node>) -> (r: Rc<RefCell<Node<'b>>>)
        ensures final(self).meta == old(self).meta && final(self).deleted == old(self).deleted && final(self).dirty == old(self).dirty,
            final(self).muts@ == old(self).muts@ + 1, final(self).tree@ == old(self).tree@,
            (*r).cur().g_tree@ == old(self).tree@, (*r).cur().g_id@ == id, final(self).buckets == old(self).buckets,
            final(self).puts@ == old(self).puts@, final(self).depth@ == old(self).depth@,
    { unimplemented!() }
}

// ---- what InnerBucket::delete_bucket needs ----
pub trait ToBytes<'a>: Sized {
    // every implementation hands over the same bytes (bytes.rs: the impls wrap or clone; ASSUMED)
    fn to_bytes(self) -> (r: Bytes<'a>)
        ensures key_view(r) == key_view(self);
}
impl<'a> ToBytes<'a> for &Bytes<'a> {
    #[verifier::external_body]
    fn to_bytes(self) -> Bytes<'a> { unimplemented!() }
}
#[verifier::external]
impl<'a> AsRef<[u8]> for Bytes<'a> {
    fn as_ref(&self) -> &[u8] { unimplemented!() }
}
// the mapped pages of the file, read-only (stand-in for page.rs Pages)
#[verifier::external_body]
pub struct Pages { _private: () }
// `tree_page(id)`: id is a page of a structurally sound tree in the file this transaction reads (assumed interface,
// C05 of the state before); `pg_overflow(id)` its overflow count
pub uninterp spec fn tree_page(id: u64) -> bool;
pub uninterp spec fn pg_overflow(id: u64) -> u64;
impl Pages {
    #[verifier::external_body]
    fn page<'a>(&self, id: PageID) -> (r: &'a Page)
        requires tree_page(id),
        ensures r.overflow == pg_overflow(id), id > 1, id + r.overflow + 1 <= u64::MAX,
    { unimplemented!() }
}
impl Page {
    // child links of a tree page are tree pages again (raw element access; assumed)
    #[verifier::external_body]
    fn branch_elements(&self) -> (r: &[BranchElement])
        ensures forall|i: int| 0 <= i < r@.len() ==> tree_page(#[trigger] r@[i].page),
    { unimplemented!() }
    #[verifier::external_body]
    fn leaf_elements(&self) -> (r: &[LeafElement])
        ensures forall|i: int| 0 <= i < r@.len() ==> leaf_bucket_ok(#[trigger] r@[i]),
    { unimplemented!() }
}
pub uninterp spec fn leaf_value_meta(l: LeafElement) -> BucketMeta;
spec fn leaf_bucket_ok(l: LeafElement) -> bool {
    l.node_type == 1 ==> tree_page(leaf_value_meta(l).root_page)
}
impl LeafElement {
    #[verifier::external_body]
    fn value<'a>(&self) -> (r: &'a [u8])
        ensures bm_of(r@) == leaf_value_meta(*self),
    { unimplemented!() }
}
pub uninterp spec fn bm_of(b: Seq<u8>) -> BucketMeta;
impl vstd::std_specs::convert::FromSpecImpl<&[u8]> for BucketMeta {
    open spec fn obeys_from_spec() -> bool { true }
    open spec fn from_spec(v: &[u8]) -> Self { bm_of(v@) }
}
impl From<&[u8]> for BucketMeta {
    #[verifier::external_body]
    fn from(value: &[u8]) -> (r: Self) { unimplemented!() }
}
// every open child still has its entry in this bucket's tree (ASSUMED invariant of the handle map: a child is registered
// together with its entry, and delete_bucket removes both)
spec fn children_have_entries(b: InnerBucket) -> bool {
    forall|k: Seq<u8>| b.buckets.has(k) ==> has_entry(b.tree@, k) && entry_is_bucket(b.tree@, k)
}
// the ids of whole page runs: for every visited page p the run p, p+1, .., p+overflow(p)
spec fn runs_ms(vis: Seq<u64>) -> Multiset<u64>
    decreases vis.len(),
{
    if vis.len() == 0 { Multiset::empty() }
    else { runs_ms(vis.drop_last()).add(id_run(vis.last() as int, pg_overflow(vis.last()) + 1).to_multiset()) }
}

// TERMINATION of the page worklist in delete_bucket is ASSUMED (the tree is finite and acyclic): each step replaces one
// tree page by its children
pub uninterp spec fn worklist_measure(s: Seq<u64>) -> nat;
#[verifier::external_body]
proof fn axiom_worklist_step(rest: Seq<u64>, popped: u64, after: Seq<u64>)
    ensures forall|h: Seq<u64>| h.len() > 0 && h.drop_last() == rest && h.last() == popped ==> worklist_measure(after) < #[trigger] worklist_measure(h),
{
}

// ---- what InnerBucket::bucket_getter needs ----
impl<'a> Clone for Bytes<'a> {
    #[verifier::external_body]
    fn clone(&self) -> (r: Self)
        ensures key_view(r) == key_view(*self),
    { unimplemented!() }
}
impl Clone for Pages {
    #[verifier::external_body]
    fn clone(&self) -> (r: Self) { unimplemented!() }
}
impl<'b> BucketMap<'b> {
    #[verifier::external_body]
    fn contains_key(&self, k: &Bytes<'b>) -> (r: bool)
        ensures r == self.has(key_view(*k)),
    { unimplemented!() }
    #[verifier::external_body]
    fn insert(&mut self, k: Bytes<'b>, v: Rc<RefCell<InnerBucket<'b>>>) -> (r: Option<Rc<RefCell<InnerBucket<'b>>>>)
        ensures forall|q: Seq<u8>| #[trigger] final(self).has(q) == (old(self).has(q) || q == key_view(k)),
            final(self).cell(key_view(k)) == v,
            forall|q: Seq<u8>| q != key_view(k) ==> #[trigger] final(self).cell(q) == old(self).cell(q),
    { unimplemented!() }
    #[verifier::external_body]
    fn get(&self, k: &Bytes<'b>) -> (r: Option<&Rc<RefCell<InnerBucket<'b>>>>)
        ensures self.has(key_view(*k)) ==> r is Some,
            r matches Some(rc) ==> *rc == self.cell(key_view(*k)),
    { unimplemented!() }
}
impl<'b> InnerBucket<'b> {
    // registers a fresh, empty child bucket under `name` and marks this bucket dirty (bucket.rs new_child)
    #[verifier::external_body]
    fn new_child<'a>(&'a mut self, name: Bytes<'b>) -> (r: RefMut<'a, InnerBucket<'b>>)
        ensures
            final(self).meta == old(self).meta && final(self).deleted == old(self).deleted && final(self).dirty,
            final(self).tree@ == old(self).tree@, final(self).muts@ == old(self).muts@ + 1,
            final(self).puts@ == old(self).puts@, final(self).depth@ == old(self).depth@,
            forall|q: Seq<u8>| #[trigger] final(self).buckets.has(q) == (old(self).buckets.has(q) || q == key_view(name)),
            forall|q: Seq<u8>| q != key_view(name) ==> #[trigger] final(self).buckets.cell(q) == old(self).buckets.cell(q),
    { unimplemented!() }
    #[verifier::external_body]
    fn from_meta(meta: BucketMeta, pages: Pages) -> (r: InnerBucket<'b>)
    { unimplemented!() }
}
// the page is already in this transaction's pending list (it was freed earlier in the transaction)
spec fn freed_by_tx(fl: TxFreelist, p: u64) -> bool {
    fl.inner.pending_pages@.contains_key(fl.meta.tx_id) && fl.inner.pending_pages@[fl.meta.tx_id]@.contains(p)
}
