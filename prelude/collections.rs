// ---- prelude/collections.rs: assumed contracts of std collection APIs that vstd does not cover ----
// Each item is an ASSUMPTION (reported in evidence.trusted_base).  The rewrite rule that routes the
// real call to the shim is named next to it (DESIGN 2.1).

pub open spec fn ascending(s: Seq<u64>) -> bool { forall|i: int, j: int| 0 <= i < j < s.len() ==> s[i] < s[j] }
pub open spec fn sorted(s: Seq<u64>) -> bool { forall|i: int, j: int| 0 <= i <= j < s.len() ==> s[i] <= s[j] }

// rule R3: `M.keys().cloned().collect()`  — BTreeMap::keys yields the keys in ascending order
#[verifier::external_body]
fn keys_vec(m: &BTreeMap<u64, Vec<PageID>>) -> (r: Vec<u64>)
    ensures ascending(r@), forall|k: u64| r@.contains(k) <==> m@.contains_key(k),
{
    m.keys().cloned().collect()
}

// rule R3: `S.iter().cloned().collect()`  — BTreeSet::iter yields the elements in ascending order
#[verifier::external_body]
fn set_vec(s: &BTreeSet<PageID>) -> (r: Vec<u64>)
    ensures ascending(r@), forall|x: u64| r@.contains(x) <==> s@.contains(x), r@.len() == s@.len(),
{
    s.iter().cloned().collect()
}

// rule R4: `M.entry(k).or_insert_with(Vec::new)`
#[verifier::external_body]
fn entry_or_new(m: &mut BTreeMap<u64, Vec<PageID>>, k: u64) -> (r: &mut Vec<PageID>)
    ensures
        r@ == (if old(m)@.contains_key(k) { old(m)@[k]@ } else { Seq::<u64>::empty() }),
        final(m)@ == old(m)@.insert(k, *final(r)),
{
    m.entry(k).or_insert_with(Vec::new)
}

pub assume_specification<T: Clone> [<[T]>::to_vec] (s: &[T]) -> (r: Vec<T>)
    ensures r@ == s@;

//@include prelude/sortv.rs

// Rust allocation limit: a Vec<u64> never holds more than isize::MAX bytes
#[verifier::external_body]
proof fn axiom_vec_u64_len(v: &Vec<u64>)
    ensures v@.len() * 8 <= 0x7fff_ffff_ffff_ffff,
{
}
//@include prelude/slice_contains.rs
