// every stack entry points into its node (or the node is empty and the index is 0)
spec fn stack_ok(t: int, st: Seq<SearchPath>) -> bool {
    forall|k: int| 0 <= k < st.len() ==> {
        let e = #[trigger] st[k];
        e.index < node_len(t, e.id) || (node_len(t, e.id) == 0 && e.index == 0)
    }
}
spec fn lands_on_leaf(t: int, st: Seq<SearchPath>) -> bool {
    st.len() >= 1 && node_leaf(t, st.last().id)
}

// `to` is `from` moved one slot to the right at level j (the deepest level of `from` that has a slot to its right),
// followed by a descent along first children
spec fn moved_one_slot(t: int, from: Seq<SearchPath>, to: Seq<SearchPath>, j: int) -> bool {
    &&& 0 <= j < from.len() && j < to.len()
    &&& from.subrange(0, j) =~= to.subrange(0, j)
    &&& to[j].id == from[j].id && to[j].index == from[j].index + 1
    &&& forall|k: int| j < k < from.len() ==> (#[trigger] from[k]).index + 1 >= node_len(t, from[k].id)
    &&& forall|k: int| j < k < to.len() ==> (#[trigger] to[k]).index == 0 && !node_leaf(t, to[k - 1].id)
            && to[k].id == PageNodeID::Page(node_child(t, to[k - 1].id, to[k - 1].index as int))
}
