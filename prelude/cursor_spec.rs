// every stack entry points into its node (or the node is empty and the index is 0)
spec fn stack_ok(t: int, st: Seq<SearchPath>) -> bool {
    forall|k: int| 0 <= k < st.len() ==> {
        let e = #[trigger] st[k];
        e.index < node_len(t, e.id) || (node_len(t, e.id) == 0 && e.index == 0)
    }
}
spec fn lands_on_leaf(t: int, st: Seq<SearchPath>) -> bool {
    st.len() >= 1 && node_leaf(t, st.last().id)
}
