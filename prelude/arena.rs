// ---- prelude/arena.rs: bumpalo arena, Layout, NonNull (assumed contracts) ----
// stand-in for bumpalo::Bump (single-file Verus cannot link external crates): opaque
#[verifier::external_body]
pub struct Bump { _private: () }
#[verifier::external_type_specification]
#[verifier::external_body]
#[verifier::reject_recursive_types(T)]
pub struct ExNonNull<T: core::marker::PointeeSized>(std::ptr::NonNull<T>);
#[verifier::external_type_specification]
#[verifier::external_body]
pub struct ExLayout(std::alloc::Layout);

// Layout::from_size_align may fail (not a power of two / too large); no other effect
pub uninterp spec fn layout_size(l: Layout) -> int;
pub uninterp spec fn layout_align(l: Layout) -> int;
pub uninterp spec fn blk_len(p: NonNull<u8>) -> int;     // length of the arena block p points to
pub uninterp spec fn blk_align(p: NonNull<u8>) -> int;   // guaranteed alignment of that block
pub assume_specification [std::alloc::Layout::from_size_align] (size: usize, align: usize) -> (r: core::result::Result<std::alloc::Layout, std::alloc::LayoutError>)
    ensures r matches Ok(l) ==> layout_size(l) == size && layout_align(l) == align;

// bumpalo returns a fresh block of layout.size() bytes aligned to layout.align()
#[verifier::external_body]
fn bump_alloc_layout(arena: &Bump, layout: Layout) -> (r: NonNull<u8>)
    ensures blk_len(r) == layout_size(layout), blk_align(r) == layout_align(layout),
{
    unimplemented!()
}

#[verifier::external_body]
fn bump_new() -> (r: Bump)
{
    unimplemented!()
}

// stub U1: `unsafe { &mut *(ptr.as_ptr() as *mut Page) }` — view the start of a fresh arena block as a Page
// header.  The field offsets behind this cast are pinned by Kani unit K1 on the real cast.
#[verifier::external_body]
fn arena_page_mut<'x>(ptr: NonNull<u8>) -> (r: &'x mut Page)
    requires blk_len(ptr) >= 40, blk_align(ptr) % 8 == 0, blk_align(ptr) > 0,     // size_of::<Page>() == 40, align_of::<Page>() == 8 (K1)
{
    unsafe { &mut *(ptr.as_ptr() as *mut Page) }
}
