// ---- prelude/txtypes.rs: the B+tree layer as an opaque type (NOT under contract, DESIGN section 1) ----
#[verifier::external_body]
pub struct InnerBucket<'b> { _p: core::marker::PhantomData<&'b ()> }
