// ---- prelude/markdel_spec.rs: "this bucket and everything open below it, down to n levels, is marked deleted" ----
// the children are reached through their cells: what counts is the value each cell is LEFT with (fin(), prelude/cell_fin.rs)
spec fn marked_below(b: InnerBucket, n: nat) -> bool
    decreases n,
{
    &&& b.deleted
    &&& (n > 0 ==> forall|i: int| 0 <= i < b.buckets.entries().len() ==> marked_below((#[trigger] b.buckets.entries()[i]).1.fin(), (n - 1) as nat))
}
