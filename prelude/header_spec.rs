// ---- prelude/header_spec.rs: which header wins (the property's oracle for recovery) ----
pub closed spec fn meta_from_old(o: OldMeta) -> Meta {
    let m0 = Meta { meta_page: o.meta_page, magic: o.magic, version: o.version, pagesize: o.pagesize, root: o.root,
                    num_pages: o.num_pages, freelist_page: o.freelist_page, tx_id: o.tx_id, hash: 0 };
    Meta { hash: fnv1a(meta_bytes(m0)), ..m0 }
}
pub closed spec fn old_meta_bytes(m: OldMeta) -> Seq<u8> {
    meta_fields_bytes(m.meta_page, m.magic, m.version, m.pagesize, m.root.root_page, m.root.next_int,
                      m.num_pages, m.freelist_page, m.tx_id)
}
// SHA3-256 is trusted (uninterpreted function of the hashed bytes)
pub uninterp spec fn sha3_256(s: Seq<u8>) -> Seq<u8>;

// a slot counts iff it is tagged as a header page and its checksum matches
spec fn slot_new(bytes: Seq<u8>, i: int, ps: int) -> Option<Meta> {
    let m = meta_view(bytes, i, ps);
    if page_view(bytes, i, ps).page_type == 3 && m.hash == fnv1a(meta_bytes(m)) { Some(m) } else { None }
}
spec fn slot_old(bytes: Seq<u8>, i: int, ps: int) -> Option<OldMeta> {
    let o = old_meta_view(bytes, i, ps);
    if page_view(bytes, i, ps).page_type == 3 && o.hash@ == sha3_256(old_meta_bytes(o)) { Some(o) } else { None }
}
// newest valid wins; tie -> slot 1
spec fn pick_new(a: Option<Meta>, b: Option<Meta>) -> Option<Meta> {
    match (a, b) {
        (Some(x), Some(y)) => if x.tx_id > y.tx_id { Some(x) } else { Some(y) },
        (Some(x), None) => Some(x),
        (None, Some(y)) => Some(y),
        (None, None) => None,
    }
}
spec fn pick_old(a: Option<OldMeta>, b: Option<OldMeta>) -> Option<OldMeta> {
    match (a, b) {
        (Some(x), Some(y)) => if x.tx_id > y.tx_id { Some(x) } else { Some(y) },
        (Some(x), None) => Some(x),
        (None, Some(y)) => Some(y),
        (None, None) => None,
    }
}
// current format first, then the legacy (<= 0.10) format
spec fn select_header(bytes: Seq<u8>, ps: int) -> Option<Meta> {
    match pick_new(slot_new(bytes, 0, ps), slot_new(bytes, 1, ps)) {
        Some(m) => Some(m),
        None => match pick_old(slot_old(bytes, 0, ps), slot_old(bytes, 1, ps)) {
            Some(o) => Some(meta_from_old(o)),
            None => None,
        },
    }
}
spec fn valid_slots_have_pagesize(bytes: Seq<u8>, ps: int) -> bool {
    &&& forall|i: int| 0 <= i < 2 ==> (#[trigger] slot_new(bytes, i, ps) matches Some(m) ==> m.pagesize == ps)
    &&& forall|i: int| 0 <= i < 2 ==> (#[trigger] slot_old(bytes, i, ps) matches Some(o) ==> o.pagesize == ps)
}
