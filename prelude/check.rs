// ---- prelude/check.rs: what TxInner::check (the database's own consistency check) is written against ----
// the transaction's other parts are opaque here: check() reads only the header copy and the mapped pages
#[verifier::external_body]
pub struct DB { _private: () }
#[verifier::external_body]
pub struct TxLock<'tx> { _p: core::marker::PhantomData<&'tx ()> }
#[verifier::external_body]
pub struct InnerBucket<'b> { _p: core::marker::PhantomData<&'b ()> }
#[verifier::external_body]
pub struct TxFreelist { _private: () }
// stand-in for memmap2::Mmap: its view is the mapped file's bytes
#[verifier::external_body]
pub struct Mmap { _private: () }
impl Mmap {
    pub uninterp spec fn view(&self) -> Seq<u8>;
}
// the page header at byte offset id * pagesize of the map (ASSUMED a function of the bytes; layout pinned by Kani unit K1)
pub uninterp spec fn page_view(bytes: Seq<u8>, id: int, pagesize: int) -> Page;
// stub U5: the cast inside Pages::page
#[verifier::external_body]
fn pages_page_cast<'a>(p: &Pages, id: PageID) -> (r: &'a Page)
    ensures *r == page_view((*p.data)@, id as int, p.pagesize as int),
{ unimplemented!() }
// stub U24: `(2..n).collect()` into a HashSet: exactly the ids 2 .. n-1
#[verifier::external_body]
fn range_to_set(lo: u64, hi: u64) -> (r: HashSet<PageID>)
    ensures forall|p: u64| r@.contains(p) <==> lo <= p < hi,
{ unimplemented!() }
