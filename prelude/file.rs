// ---- prelude/file.rs: stand-in for std::fs::File with a ghost I/O trace (DESIGN 2.4) ----
// Every operation appends one event and may fail (returns Err nondeterministically), so that order,
// target and content of every write become ordinary postconditions.  ASSUMED contracts.
pub enum IoEv {
    Seek { off: u64 },
    Write { off: u64, bytes: Seq<u8> },
    WriteFailed { off: u64 },
    Flush,
    FlushFailed,
    Sync,
    SyncFailed,
    Len,
    Allocate { len: u64 },
    AllocateFailed { len: u64 },
    LockEx,
    Map,
}

#[verifier::external_body]
pub struct File { _private: () }
#[verifier::external_body]
pub struct Metadata { _private: () }
pub enum SeekFrom { Start(u64), End(i64), Current(i64) }

impl File {
    pub uninterp spec fn trace(&self) -> Seq<IoEv>;
    pub uninterp spec fn pos(&self) -> u64;         // current offset
    // how many bytes of the LAST FAILED write_all reached the file before the error (a short write followed by an error;
    // anything from 0 up to the buffer length minus one; nothing is promised about it)
    pub uninterp spec fn short_prefix(&self) -> nat;
    pub uninterp spec fn len(&self) -> u64;         // current length
    // a fact that only grows while the handle lives (the code never truncates): the file is at least n bytes long
    pub uninterp spec fn allocated_at_least(&self, n: u64) -> bool;
    // the process holds the exclusive advisory lock (flock) on the open file description behind this handle.  Like
    // allocated_at_least this is a fact about the HANDLE that no operation of the stand-in takes away: the lock is
    // released only when the handle is dropped (OS semantics, assumed)
    pub uninterp spec fn lock_held(&self) -> bool;
    // the operating system refused the lock request / the mapping of this handle (the only reasons for which opening a
    // sound file may fail)
    pub uninterp spec fn lock_refused(&self) -> bool;
    pub uninterp spec fn map_refused(&self) -> bool;
    pub open spec fn keeps_allocation(&self, before: &File) -> bool {
        forall|n: u64| before.allocated_at_least(n) ==> #[trigger] self.allocated_at_least(n)
    }

    #[verifier::external_body]
    pub fn seek(&mut self, to: SeekFrom) -> (r: core::result::Result<u64, std::io::Error>)
        ensures
            final(self).len() == old(self).len(), final(self).keeps_allocation(old(self)),
            to matches SeekFrom::Start(off) ==> {
                &&& final(self).trace() == old(self).trace().push(IoEv::Seek { off })
                &&& (r is Ok ==> final(self).pos() == off)
            },
    { unimplemented!() }

    #[verifier::external_body]
    pub fn write_all(&mut self, buf: &[u8]) -> (r: core::result::Result<(), std::io::Error>)
        ensures
            r is Ok ==> final(self).trace() == old(self).trace().push(IoEv::Write { off: old(self).pos(), bytes: buf@ }),
            r is Err ==> final(self).trace() == old(self).trace().push(IoEv::WriteFailed { off: old(self).pos() }),
            r is Ok ==> final(self).len() >= old(self).len(),
            final(self).keeps_allocation(old(self)),
    { unimplemented!() }

    #[verifier::external_body]
    pub fn flush(&mut self) -> (r: core::result::Result<(), std::io::Error>)
        ensures
            r is Ok ==> final(self).trace() == old(self).trace().push(IoEv::Flush),
            r is Err ==> final(self).trace() == old(self).trace().push(IoEv::FlushFailed),
            final(self).len() == old(self).len(), final(self).keeps_allocation(old(self)),
    { unimplemented!() }

    // std's sync_all takes &self; the stand-in takes &mut self so that the ghost trace can record it
    #[verifier::external_body]
    pub fn sync_all(&mut self) -> (r: core::result::Result<(), std::io::Error>)
        ensures
            r is Ok ==> final(self).trace() == old(self).trace().push(IoEv::Sync),
            r is Err ==> final(self).trace() == old(self).trace().push(IoEv::SyncFailed),
            final(self).len() == old(self).len(), final(self).pos() == old(self).pos(), final(self).keeps_allocation(old(self)),
    { unimplemented!() }

    #[verifier::external_body]
    pub fn metadata(&self) -> (r: core::result::Result<Metadata, std::io::Error>)
        ensures r matches Ok(m) ==> m.len_spec() == self.len(),
    { unimplemented!() }
}
impl Metadata {
    pub uninterp spec fn len_spec(&self) -> u64;
    #[verifier::external_body]
    pub fn len(&self) -> (r: u64)
        ensures r == self.len_spec(),
    { unimplemented!() }
}
