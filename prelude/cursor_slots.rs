// ---- prelude/cursor_slots.rs: numbering of the cursor's POSITIONS (for termination of Cursor::next) ----
// Same construction as prelude/cursor_order.rs, but a leaf counts max(len, 1) positions (an emptied leaf is one position
// the cursor can rest on), so that EVERY Cursor::advance moves the number up by exactly one.  All lemmas proved.
spec fn leaf_slots(t: int, id: PageNodeID) -> nat { if node_len(t, id) == 0 { 1 } else { node_len(t, id) } }
#[verifier::opaque]
spec fn ssize(t: int, id: PageNodeID) -> nat
    decreases node_height(t, id), node_len(t, id) + 1
{
    if !tree_ok(t) { 0 } else if node_leaf(t, id) { leaf_slots(t, id) } else { sprefix(t, id, node_len(t, id)) }
}
#[verifier::opaque]
spec fn sprefix(t: int, id: PageNodeID, k: nat) -> nat
    decreases node_height(t, id), k
{
    if !tree_ok(t) || node_leaf(t, id) || k == 0 || k > node_len(t, id) { 0 }
    else { sprefix(t, id, (k - 1) as nat) + ssize(t, child_id(t, id, k - 1)) }
}
spec fn scontrib(t: int, e: SearchPath) -> nat {
    if node_leaf(t, e.id) { e.index as nat } else { sprefix(t, e.id, e.index as nat) }
}
spec fn ssum_to(t: int, st: Seq<SearchPath>, n: int) -> nat
    decreases n
{
    if n <= 0 { 0 } else { ssum_to(t, st, n - 1) + scontrib(t, st[n - 1]) }
}
#[verifier::opaque]
spec fn snum(t: int, st: Seq<SearchPath>) -> nat { ssum_to(t, st, st.len() as int) }

proof fn lemma_s_canon_prefix(t: int, id: PageNodeID, k: nat)
    requires tree_ok(t),
    ensures sprefix(t, node_canon(t, id), k) == sprefix(t, id, k),
    decreases k,
{
    reveal(snum); reveal(path_ok); reveal_with_fuel(ssize, 2); reveal_with_fuel(sprefix, 2);
    let c = node_canon(t, id);
    assert(node_len(t, c) == node_len(t, id) && node_leaf(t, c) == node_leaf(t, id));
    if !(node_leaf(t, id) || k == 0 || k > node_len(t, id)) {
        lemma_s_canon_prefix(t, id, (k - 1) as nat);
        assert(node_child(t, c, k - 1) == node_child(t, id, k - 1));
    }
}
proof fn lemma_s_canon_size(t: int, id: PageNodeID)
    requires tree_ok(t),
    ensures ssize(t, node_canon(t, id)) == ssize(t, id),
{
    reveal(snum); reveal(path_ok); reveal_with_fuel(ssize, 2); reveal_with_fuel(sprefix, 2);
    let c = node_canon(t, id);
    assert(node_len(t, c) == node_len(t, id) && node_leaf(t, c) == node_leaf(t, id));
    lemma_s_canon_prefix(t, id, node_len(t, id));
}
proof fn lemma_s_same_node_size(t: int, a: PageNodeID, b: PageNodeID)
    requires tree_ok(t), same_node(t, a, b),
    ensures ssize(t, a) == ssize(t, b), node_leaf(t, a) == node_leaf(t, b), node_len(t, a) == node_len(t, b),
{
    reveal(snum); reveal(path_ok); reveal_with_fuel(ssize, 2); reveal_with_fuel(sprefix, 2);
    if a != b { lemma_s_canon_size(t, b); assert(node_len(t, node_canon(t, b)) == node_len(t, b)); }
}
proof fn lemma_s_prefix_step(t: int, id: PageNodeID, k: nat)
    requires tree_ok(t), !node_leaf(t, id), k < node_len(t, id),
    ensures sprefix(t, id, k + 1) == sprefix(t, id, k) + ssize(t, child_id(t, id, k as int)),
{
    reveal(snum); reveal(path_ok); reveal_with_fuel(ssize, 2); reveal_with_fuel(sprefix, 2);
}
proof fn lemma_s_sum_agree(t: int, a: Seq<SearchPath>, b: Seq<SearchPath>, n: int)
    requires 0 <= n <= a.len(), n <= b.len(), forall|i: int| 0 <= i < n ==> a[i] == b[i],
    ensures ssum_to(t, a, n) == ssum_to(t, b, n),
    decreases n,
{
    reveal(snum); reveal(path_ok); reveal_with_fuel(ssize, 2); reveal_with_fuel(sprefix, 2);
    if n > 0 { lemma_s_sum_agree(t, a, b, n - 1); }
}
proof fn lemma_s_sum_zero_tail(t: int, st: Seq<SearchPath>, j: int, n: int)
    requires tree_ok(t), 0 <= j <= n <= st.len(), forall|k: int| j <= k < n ==> (#[trigger] st[k]).index == 0,
    ensures ssum_to(t, st, n) == ssum_to(t, st, j),
    decreases n - j,
{
    reveal(snum); reveal(path_ok); reveal_with_fuel(ssize, 2); reveal_with_fuel(sprefix, 2);
    if n > j {
        lemma_s_sum_zero_tail(t, st, j, n - 1);
        assert(scontrib(t, st[n - 1]) == 0);
    }
}
// below level j everything is used up: the entries before the position inside the subtree of st[j], plus the one the
// cursor stands on (if any), are ALL entries of that subtree
proof fn lemma_s_exhausted_tail(t: int, root: u64, st: Seq<SearchPath>, j: int)
    requires
        tree_ok(t), path_ok(t, root, st), stack_ok(t, st), lands_on_leaf(t, st),
        0 <= j < st.len(), exhausted_from(t, st, j),
    ensures
        ssum_to(t, st, st.len() as int) - ssum_to(t, st, j) + 1 == ssize(t, st[j].id),
    decreases st.len() - j,
{
    reveal(snum); reveal(path_ok); reveal_with_fuel(ssize, 2); reveal_with_fuel(sprefix, 2);
    let n = st.len() as int;
    let e = st[j];
    if j == n - 1 {
        assert(ssum_to(t, st, n) == ssum_to(t, st, n - 1) + scontrib(t, st[n - 1]));
        assert(node_leaf(t, e.id));
        if node_len(t, e.id) == 0 { assert(e.index == 0); } else { assert(e.index + 1 == node_len(t, e.id)); }
    } else {
        lemma_s_exhausted_tail(t, root, st, j + 1);
        let nx = st[j + 1];
        assert(!node_leaf(t, e.id) && same_node(t, nx.id, child_id(t, e.id, e.index as int)));
        assert(node_len(t, e.id) > 0);
        assert(e.index + 1 == node_len(t, e.id));
        lemma_s_same_node_size(t, nx.id, child_id(t, e.id, e.index as int));
        lemma_s_prefix_step(t, e.id, e.index as nat);
        assert(ssum_to(t, st, j + 1) == ssum_to(t, st, j) + scontrib(t, e));
        assert(ssize(t, e.id) == sprefix(t, e.id, node_len(t, e.id)));
    }
}
// Cursor::advance answered false: every level is used up, so nothing lies after the position
proof fn lemma_s_exhausted_all(t: int, root: u64, st: Seq<SearchPath>)
    requires tree_ok(t), path_ok(t, root, st), stack_ok(t, st), lands_on_leaf(t, st), exhausted_from(t, st, 0),
    ensures snum(t, st) + 1 == ssize(t, PageNodeID::Page(root)),
{
    reveal(snum); reveal(path_ok); reveal_with_fuel(ssize, 2); reveal_with_fuel(sprefix, 2);
    lemma_s_exhausted_tail(t, root, st, 0);
    lemma_s_same_node_size(t, st[0].id, PageNodeID::Page(root));
}
// Cursor::advance answered true: the new position is the next one in order
proof fn lemma_s_moved(t: int, root: u64, old_st: Seq<SearchPath>, fin: Seq<SearchPath>, j: int)
    requires
        tree_ok(t), path_ok(t, root, old_st), stack_ok(t, old_st), lands_on_leaf(t, old_st),
        moved_one_slot(t, old_st, fin, j), stack_ok(t, fin),
    ensures
        path_ok(t, root, fin),
        snum(t, fin) == snum(t, old_st) + 1,
{
    reveal(snum); reveal(path_ok); reveal_with_fuel(ssize, 2); reveal_with_fuel(sprefix, 2);
    let n = old_st.len() as int;
    let m = fin.len() as int;
    assert forall|i: int| 0 <= i < j implies old_st[i] == fin[i] by {
        assert(old_st.subrange(0, j)[i] == fin.subrange(0, j)[i]);
    }
    // path
    assert(path_ok(t, root, fin)) by {
        if j > 0 { assert(fin[0] == old_st[0]); }
        assert forall|k: int| 1 <= k < m implies !node_leaf(t, fin[k - 1].id)
            && same_node(t, (#[trigger] fin[k]).id, child_id(t, fin[k - 1].id, fin[k - 1].index as int)) by {
            if k < j {
                assert(fin[k] == old_st[k] && fin[k - 1] == old_st[k - 1]);
            } else if k == j {
                assert(fin[k - 1] == old_st[k - 1]);
                assert(same_node(t, old_st[k].id, child_id(t, old_st[k - 1].id, old_st[k - 1].index as int)));
            }
        }
    }
    lemma_s_sum_agree(t, old_st, fin, j);
    lemma_s_sum_zero_tail(t, fin, j + 1, m);
    assert(ssum_to(t, fin, j + 1) == ssum_to(t, fin, j) + scontrib(t, fin[j]));
    assert(ssum_to(t, old_st, j + 1) == ssum_to(t, old_st, j) + scontrib(t, old_st[j]));
    let e = old_st[j];
    assert(fin[j].index == e.index + 1 && fin[j].id == e.id);
    assert(fin[j].index < node_len(t, e.id));
    if j == n - 1 {
        assert(node_leaf(t, e.id));
    } else {
        assert(!node_leaf(t, e.id));
        assert(exhausted_from(t, old_st, j + 1));
        lemma_s_exhausted_tail(t, root, old_st, j + 1);
        let nx = old_st[j + 1];
        lemma_s_same_node_size(t, nx.id, child_id(t, e.id, e.index as int));
        lemma_s_prefix_step(t, e.id, e.index as nat);
    }
}
// a stack of first children below the root denotes position 0
proof fn lemma_s_first_path(t: int, root: u64, st: Seq<SearchPath>)
    requires
        tree_ok(t), st.len() >= 1, st[0].id == PageNodeID::Page(root),
        forall|k: int| 0 <= k < st.len() ==> (#[trigger] st[k]).index == 0,
        forall|k: int| 1 <= k < st.len() ==> !node_leaf(t, st[k - 1].id) && (#[trigger] st[k]).id == child_id(t, st[k - 1].id, st[k - 1].index as int),
    ensures path_ok(t, root, st), snum(t, st) == 0,
{
    reveal(snum); reveal(path_ok); reveal_with_fuel(ssize, 2); reveal_with_fuel(sprefix, 2);
    lemma_s_sum_zero_tail(t, st, 0, st.len() as int);
}


// every position number is below the number of positions (needed so that `ssize - snum` is a termination measure)
proof fn lemma_s_prefix_mono(t: int, id: PageNodeID, a: nat, b: nat)
    requires tree_ok(t), !node_leaf(t, id), a <= b <= node_len(t, id),
    ensures sprefix(t, id, a) <= sprefix(t, id, b),
    decreases b - a,
{
    reveal_with_fuel(sprefix, 2);
    if a < b { lemma_s_prefix_mono(t, id, a, (b - 1) as nat); }
}
proof fn lemma_s_bound_tail(t: int, root: u64, st: Seq<SearchPath>, j: int)
    requires tree_ok(t), path_ok(t, root, st), stack_ok(t, st), lands_on_leaf(t, st), 0 <= j < st.len(),
    ensures ssum_to(t, st, st.len() as int) - ssum_to(t, st, j) + 1 <= ssize(t, st[j].id),
    decreases st.len() - j,
{
    reveal(path_ok); reveal_with_fuel(ssize, 2); reveal_with_fuel(sprefix, 2);
    let n = st.len() as int;
    let e = st[j];
    if j == n - 1 {
        assert(ssum_to(t, st, n) == ssum_to(t, st, n - 1) + scontrib(t, st[n - 1]));
        assert(node_leaf(t, e.id));
    } else {
        lemma_s_bound_tail(t, root, st, j + 1);
        let nx = st[j + 1];
        assert(!node_leaf(t, e.id) && same_node(t, nx.id, child_id(t, e.id, e.index as int)));
        assert(node_len(t, e.id) > 0);
        assert(e.index < node_len(t, e.id));
        lemma_s_same_node_size(t, nx.id, child_id(t, e.id, e.index as int));
        lemma_s_prefix_step(t, e.id, e.index as nat);
        lemma_s_prefix_mono(t, e.id, (e.index + 1) as nat, node_len(t, e.id));
        assert(ssum_to(t, st, j + 1) == ssum_to(t, st, j) + scontrib(t, e));
        assert(ssize(t, e.id) == sprefix(t, e.id, node_len(t, e.id)));
    }
}
proof fn lemma_s_bound(t: int, root: u64, st: Seq<SearchPath>)
    requires tree_ok(t), path_ok(t, root, st), stack_ok(t, st), lands_on_leaf(t, st),
    ensures snum(t, st) + 1 <= ssize(t, PageNodeID::Page(root)),
{
    reveal(snum); reveal(path_ok);
    lemma_s_bound_tail(t, root, st, 0);
    lemma_s_same_node_size(t, st[0].id, PageNodeID::Page(root));
}
