// ---- prelude/bucket_api.rs: the B+tree layer's API as assumed contracts (it is NOT under contract) ----
// The only promise used: an InnerBucket method never answers ReadOnlyTx (backed by the census of the token
// `Error::ReadOnlyTx` in src/, see evidence), and the documented `deleted` flag.
pub struct InnerBucket<'b> {
    pub deleted: bool,
    pub _rest: core::marker::PhantomData<&'b ()>,
}
#[verifier::external_body]
pub struct Bytes<'a> { _p: core::marker::PhantomData<&'a ()> }
#[verifier::external_body]
pub struct KVPair<'b, 'tx> { _p: core::marker::PhantomData<(&'b (), &'tx ())> }
pub trait ToBytes<'a> {
    fn to_bytes(self) -> Bytes<'a>;
}
pub trait AsRefBytes {}         // stands for AsRef<[u8]>
impl<'b, 'tx> vstd::std_specs::convert::FromSpecImpl<(Bytes<'tx>, Bytes<'tx>)> for KVPair<'b, 'tx> {
    open spec fn obeys_from_spec() -> bool { false }
    open spec fn from_spec(v: (Bytes<'tx>, Bytes<'tx>)) -> Self { arbitrary() }
}
impl<'b, 'tx> From<(Bytes<'tx>, Bytes<'tx>)> for KVPair<'b, 'tx> {
    #[verifier::external_body]
    fn from(val: (Bytes<'tx>, Bytes<'tx>)) -> Self { unimplemented!() }
}
spec fn not_read_only<T>(r: core::result::Result<T, Error>) -> bool {
    !(r matches Err(Error::ReadOnlyTx))
}
impl<'b> InnerBucket<'b> {
    #[verifier::external_body]
    fn put<'a, T: ToBytes<'b>, S: ToBytes<'b>>(&'a mut self, key: T, value: S) -> (r: Result<Option<(Bytes<'b>, Bytes<'b>)>>)
        ensures not_read_only(r),
    { unimplemented!() }
    #[verifier::external_body]
    fn delete<'a, T: AsRef<[u8]>>(&'a mut self, key: T) -> (r: Result<(Bytes<'b>, Bytes<'b>)>)
        ensures not_read_only(r),
    { unimplemented!() }
    #[verifier::external_body]
    fn create_bucket<T: ToBytes<'b>>(&mut self, name: T) -> (r: Result<Rc<RefCell<Self>>>)
        ensures not_read_only(r),
    { unimplemented!() }
    #[verifier::external_body]
    fn get_bucket<'a, T: ToBytes<'b>>(&'a mut self, name: T) -> (r: Result<Rc<RefCell<Self>>>)
        ensures not_read_only(r),
    { unimplemented!() }
    #[verifier::external_body]
    fn get_or_create_bucket<T: ToBytes<'b>>(&mut self, name: T) -> (r: Result<Rc<RefCell<Self>>>)
        ensures not_read_only(r),
    { unimplemented!() }
    #[verifier::external_body]
    fn delete_bucket<T: ToBytes<'b>>(&mut self, name: T, freelist: &mut TxFreelist) -> (r: Result<()>)
        ensures not_read_only(r),
    { unimplemented!() }
    #[verifier::external_body]
    fn rebalance(&mut self, tx_freelist: &mut TxFreelist) -> (r: Result<()>)
        ensures not_read_only(r),
    { unimplemented!() }
    #[verifier::external_body]
    fn spill(&mut self, tx_freelist: &mut TxFreelist) -> (r: Result<BucketMeta>)
        ensures not_read_only(r),
    { unimplemented!() }
}
