// ---- prelude/sha3.rs: stand-ins for sha3::Sha3_256 and bytes::{BytesMut, Bytes, Writer} (assumed contracts) ----
#[verifier::external_body]
pub struct Sha3_256 { _private: () }
#[verifier::external_body]
pub struct Sha3Output { _private: () }          // GenericArray<u8, U32>
impl Sha3_256 {
    pub uninterp spec fn absorbed(&self) -> Seq<u8>;
    #[verifier::external_body]
    pub fn new() -> (r: Sha3_256)
        ensures r.absorbed() == Seq::<u8>::empty(),
    { unimplemented!() }
    #[verifier::external_body]
    pub fn update(&mut self, data: Bytes)
        ensures final(self).absorbed() == old(self).absorbed() + data@,
    { unimplemented!() }
    #[verifier::external_body]
    pub fn finalize(self) -> (r: Sha3Output)
        ensures r@ == sha3_256(self.absorbed()), r@.len() == 32,
    { unimplemented!() }
}
impl Sha3Output {
    pub uninterp spec fn view(&self) -> Seq<u8>;
    #[verifier::external_body]
    pub fn len(&self) -> (r: usize)
        ensures r == self@.len(),
    { unimplemented!() }
    // stands for `&hash[..]`
    #[verifier::external_body]
    pub fn as_slice(&self) -> (r: &[u8])
        ensures r@ == self@,
    { unimplemented!() }
}

// the real code names these through the crate path `bytes::`
pub mod bytes { pub use super::{Bytes, BytesMut}; }
#[verifier::external_body]
pub struct BytesMut { _private: () }
#[verifier::external_body]
pub struct Bytes { _private: () }
#[verifier::external_body]
pub struct BytesWriter { _private: () }
impl BytesMut {
    pub uninterp spec fn view(&self) -> Seq<u8>;
    #[verifier::external_body]
    pub fn new() -> (r: BytesMut)
        ensures r@ == Seq::<u8>::empty(),
    { unimplemented!() }
    #[verifier::external_body]
    pub fn writer(self) -> (r: BytesWriter)
        ensures r@ == self@,
    { unimplemented!() }
    #[verifier::external_body]
    pub fn freeze(self) -> (r: Bytes)
        ensures r@ == self@,
    { unimplemented!() }
}
impl Bytes {
    pub uninterp spec fn view(&self) -> Seq<u8>;
}
impl BytesWriter {
    pub uninterp spec fn view(&self) -> Seq<u8>;
    // io::Write::write on a BytesMut writer appends the whole slice
    #[verifier::external_body]
    pub fn write(&mut self, buf: &[u8]) -> (r: core::result::Result<usize, std::io::Error>)
        ensures final(self)@ == old(self)@ + buf@,
    { unimplemented!() }
    #[verifier::external_body]
    pub fn into_inner(self) -> (r: BytesMut)
        ensures r@ == self@,
    { unimplemented!() }
}
// `dst.copy_from_slice(src)` on a [u8; 32]
#[verifier::external_body]
fn copy32(dst: &mut [u8; 32], src: &[u8])
    requires src@.len() == 32,
    ensures final(dst)@ == src@,
{ unimplemented!() }
// `a == b` on [u8; 32]
#[verifier::external_body]
fn eq32(a: &[u8; 32], b: &[u8; 32]) -> (r: bool)
    ensures r == (a@ == b@),
{ unimplemented!() }
