// ---- prelude/cursor_order.rs: in-order numbering of the entries of the tree a cursor walks (R2-full) ----
// All DEFINITIONS and PROVED lemmas over the abstract tree interface of prelude/cursor_tree.rs; nothing assumed here.
// size(t, id)      number of entries (leaf slots) in the subtree of `id`
// prefix(t, id, k) number of entries in the first k children of the branch `id`
// num(t, st)       number of entries strictly before the position a (root-to-leaf) stack denotes
spec fn child_id(t: int, id: PageNodeID, i: int) -> PageNodeID { PageNodeID::Page(node_child(t, id, i)) }

#[verifier::opaque]
spec fn size(t: int, id: PageNodeID) -> nat
    decreases node_height(t, id), node_len(t, id) + 1
{
    if !tree_ok(t) { 0 } else if node_leaf(t, id) { node_len(t, id) } else { prefix(t, id, node_len(t, id)) }
}
#[verifier::opaque]
spec fn prefix(t: int, id: PageNodeID, k: nat) -> nat
    decreases node_height(t, id), k
{
    if !tree_ok(t) || node_leaf(t, id) || k == 0 || k > node_len(t, id) { 0 }
    else { prefix(t, id, (k - 1) as nat) + size(t, child_id(t, id, k - 1)) }
}
spec fn contrib(t: int, e: SearchPath) -> nat {
    if node_leaf(t, e.id) { e.index as nat } else { prefix(t, e.id, e.index as nat) }
}
spec fn sum_to(t: int, st: Seq<SearchPath>, n: int) -> nat
    decreases n
{
    if n <= 0 { 0 } else { sum_to(t, st, n - 1) + contrib(t, st[n - 1]) }
}
#[verifier::opaque]
spec fn num(t: int, st: Seq<SearchPath>) -> nat { sum_to(t, st, st.len() as int) }
spec fn at_entry(t: int, st: Seq<SearchPath>) -> bool {
    st.len() >= 1 && node_leaf(t, st.last().id) && st.last().index < node_len(t, st.last().id)
}
spec fn one_if(b: bool) -> nat { if b { 1 } else { 0 } }
// the same node, named by its page or by the id PageNode::id() answers with
spec fn same_node(t: int, a: PageNodeID, b: PageNodeID) -> bool { a == b || a == node_canon(t, b) }
// the stack is a path from the root: every entry is the child its predecessor points at
#[verifier::opaque]
spec fn path_ok(t: int, root: u64, st: Seq<SearchPath>) -> bool {
    &&& st.len() >= 1
    &&& same_node(t, st[0].id, PageNodeID::Page(root))
    &&& forall|k: int| 1 <= k < st.len() ==> !node_leaf(t, st[k - 1].id)
            && same_node(t, (#[trigger] st[k]).id, child_id(t, st[k - 1].id, st[k - 1].index as int))
}
spec fn exhausted_from(t: int, st: Seq<SearchPath>, j: int) -> bool {
    forall|k: int| j <= k < st.len() ==> (#[trigger] st[k]).index + 1 >= node_len(t, st[k].id)
}

proof fn lemma_canon_prefix(t: int, id: PageNodeID, k: nat)
    requires tree_ok(t),
    ensures prefix(t, node_canon(t, id), k) == prefix(t, id, k),
    decreases k,
{
    reveal(num); reveal(path_ok); reveal_with_fuel(size, 2); reveal_with_fuel(prefix, 2);
    let c = node_canon(t, id);
    assert(node_len(t, c) == node_len(t, id) && node_leaf(t, c) == node_leaf(t, id));
    if !(node_leaf(t, id) || k == 0 || k > node_len(t, id)) {
        lemma_canon_prefix(t, id, (k - 1) as nat);
        assert(node_child(t, c, k - 1) == node_child(t, id, k - 1));
    }
}
proof fn lemma_canon_size(t: int, id: PageNodeID)
    requires tree_ok(t),
    ensures size(t, node_canon(t, id)) == size(t, id),
{
    reveal(num); reveal(path_ok); reveal_with_fuel(size, 2); reveal_with_fuel(prefix, 2);
    let c = node_canon(t, id);
    assert(node_len(t, c) == node_len(t, id) && node_leaf(t, c) == node_leaf(t, id));
    lemma_canon_prefix(t, id, node_len(t, id));
}
proof fn lemma_same_node_size(t: int, a: PageNodeID, b: PageNodeID)
    requires tree_ok(t), same_node(t, a, b),
    ensures size(t, a) == size(t, b), node_leaf(t, a) == node_leaf(t, b), node_len(t, a) == node_len(t, b),
{
    reveal(num); reveal(path_ok); reveal_with_fuel(size, 2); reveal_with_fuel(prefix, 2);
    if a != b { lemma_canon_size(t, b); assert(node_len(t, node_canon(t, b)) == node_len(t, b)); }
}
proof fn lemma_prefix_step(t: int, id: PageNodeID, k: nat)
    requires tree_ok(t), !node_leaf(t, id), k < node_len(t, id),
    ensures prefix(t, id, k + 1) == prefix(t, id, k) + size(t, child_id(t, id, k as int)),
{
    reveal(num); reveal(path_ok); reveal_with_fuel(size, 2); reveal_with_fuel(prefix, 2);
}
proof fn lemma_sum_agree(t: int, a: Seq<SearchPath>, b: Seq<SearchPath>, n: int)
    requires 0 <= n <= a.len(), n <= b.len(), forall|i: int| 0 <= i < n ==> a[i] == b[i],
    ensures sum_to(t, a, n) == sum_to(t, b, n),
    decreases n,
{
    reveal(num); reveal(path_ok); reveal_with_fuel(size, 2); reveal_with_fuel(prefix, 2);
    if n > 0 { lemma_sum_agree(t, a, b, n - 1); }
}
proof fn lemma_sum_zero_tail(t: int, st: Seq<SearchPath>, j: int, n: int)
    requires tree_ok(t), 0 <= j <= n <= st.len(), forall|k: int| j <= k < n ==> (#[trigger] st[k]).index == 0,
    ensures sum_to(t, st, n) == sum_to(t, st, j),
    decreases n - j,
{
    reveal(num); reveal(path_ok); reveal_with_fuel(size, 2); reveal_with_fuel(prefix, 2);
    if n > j {
        lemma_sum_zero_tail(t, st, j, n - 1);
        assert(contrib(t, st[n - 1]) == 0);
    }
}
// below level j everything is used up: the entries before the position inside the subtree of st[j], plus the one the
// cursor stands on (if any), are ALL entries of that subtree
proof fn lemma_exhausted_tail(t: int, root: u64, st: Seq<SearchPath>, j: int)
    requires
        tree_ok(t), path_ok(t, root, st), stack_ok(t, st), lands_on_leaf(t, st),
        0 <= j < st.len(), exhausted_from(t, st, j),
    ensures
        sum_to(t, st, st.len() as int) - sum_to(t, st, j) + one_if(at_entry(t, st)) == size(t, st[j].id),
    decreases st.len() - j,
{
    reveal(num); reveal(path_ok); reveal_with_fuel(size, 2); reveal_with_fuel(prefix, 2);
    let n = st.len() as int;
    let e = st[j];
    if j == n - 1 {
        assert(sum_to(t, st, n) == sum_to(t, st, n - 1) + contrib(t, st[n - 1]));
        assert(node_leaf(t, e.id));
        if at_entry(t, st) {
            assert(e.index + 1 == node_len(t, e.id));
        } else {
            assert(node_len(t, e.id) == 0 && e.index == 0);
        }
    } else {
        lemma_exhausted_tail(t, root, st, j + 1);
        let nx = st[j + 1];
        assert(!node_leaf(t, e.id) && same_node(t, nx.id, child_id(t, e.id, e.index as int)));
        assert(node_len(t, e.id) > 0);
        assert(e.index + 1 == node_len(t, e.id));
        lemma_same_node_size(t, nx.id, child_id(t, e.id, e.index as int));
        lemma_prefix_step(t, e.id, e.index as nat);
        assert(sum_to(t, st, j + 1) == sum_to(t, st, j) + contrib(t, e));
        assert(size(t, e.id) == prefix(t, e.id, node_len(t, e.id)));
    }
}
// Cursor::advance answered false: every level is used up, so nothing lies after the position
proof fn lemma_exhausted_all(t: int, root: u64, st: Seq<SearchPath>)
    requires tree_ok(t), path_ok(t, root, st), stack_ok(t, st), lands_on_leaf(t, st), exhausted_from(t, st, 0),
    ensures num(t, st) + one_if(at_entry(t, st)) == size(t, PageNodeID::Page(root)),
{
    reveal(num); reveal(path_ok); reveal_with_fuel(size, 2); reveal_with_fuel(prefix, 2);
    lemma_exhausted_tail(t, root, st, 0);
    lemma_same_node_size(t, st[0].id, PageNodeID::Page(root));
}
// Cursor::advance answered true: the new position is the next one in order
proof fn lemma_moved(t: int, root: u64, old_st: Seq<SearchPath>, fin: Seq<SearchPath>, j: int)
    requires
        tree_ok(t), path_ok(t, root, old_st), stack_ok(t, old_st), lands_on_leaf(t, old_st),
        moved_one_slot(t, old_st, fin, j), stack_ok(t, fin),
    ensures
        path_ok(t, root, fin),
        num(t, fin) == num(t, old_st) + one_if(at_entry(t, old_st)),
{
    reveal(num); reveal(path_ok); reveal_with_fuel(size, 2); reveal_with_fuel(prefix, 2);
    let n = old_st.len() as int;
    let m = fin.len() as int;
    assert forall|i: int| 0 <= i < j implies old_st[i] == fin[i] by {
        assert(old_st.subrange(0, j)[i] == fin.subrange(0, j)[i]);
    }
    // path
    assert(path_ok(t, root, fin)) by {
        if j > 0 { assert(fin[0] == old_st[0]); }
        assert forall|k: int| 1 <= k < m implies !node_leaf(t, fin[k - 1].id)
            && same_node(t, (#[trigger] fin[k]).id, child_id(t, fin[k - 1].id, fin[k - 1].index as int)) by {
            if k < j {
                assert(fin[k] == old_st[k] && fin[k - 1] == old_st[k - 1]);
            } else if k == j {
                assert(fin[k - 1] == old_st[k - 1]);
                assert(same_node(t, old_st[k].id, child_id(t, old_st[k - 1].id, old_st[k - 1].index as int)));
            }
        }
    }
    lemma_sum_agree(t, old_st, fin, j);
    lemma_sum_zero_tail(t, fin, j + 1, m);
    assert(sum_to(t, fin, j + 1) == sum_to(t, fin, j) + contrib(t, fin[j]));
    assert(sum_to(t, old_st, j + 1) == sum_to(t, old_st, j) + contrib(t, old_st[j]));
    let e = old_st[j];
    assert(fin[j].index == e.index + 1 && fin[j].id == e.id);
    assert(fin[j].index < node_len(t, e.id));
    if j == n - 1 {
        assert(node_leaf(t, e.id));
        assert(at_entry(t, old_st));
    } else {
        assert(!node_leaf(t, e.id));
        assert(exhausted_from(t, old_st, j + 1));
        lemma_exhausted_tail(t, root, old_st, j + 1);
        let nx = old_st[j + 1];
        lemma_same_node_size(t, nx.id, child_id(t, e.id, e.index as int));
        lemma_prefix_step(t, e.id, e.index as nat);
    }
}
// a stack of first children below the root denotes position 0
proof fn lemma_first_path(t: int, root: u64, st: Seq<SearchPath>)
    requires
        tree_ok(t), st.len() >= 1, st[0].id == PageNodeID::Page(root),
        forall|k: int| 0 <= k < st.len() ==> (#[trigger] st[k]).index == 0,
        forall|k: int| 1 <= k < st.len() ==> !node_leaf(t, st[k - 1].id) && (#[trigger] st[k]).id == child_id(t, st[k - 1].id, st[k - 1].index as int),
    ensures path_ok(t, root, st), num(t, st) == 0,
{
    reveal(num); reveal(path_ok); reveal_with_fuel(size, 2); reveal_with_fuel(prefix, 2);
    lemma_sum_zero_tail(t, st, 0, st.len() as int);
}

// where an iteration step starts from: a fresh cursor, or a root-to-leaf path (after a seek or an earlier step)
spec fn ordered_start(t: int, root: u64, st: Seq<SearchPath>) -> bool {
    st.len() == 0 || (path_ok(t, root, st) && lands_on_leaf(t, st))
}
// in-order number of the entry the next call of Cursor::next has to yield
spec fn next_target(t: int, st: Seq<SearchPath>, next_called: bool) -> nat {
    if st.len() == 0 { 0 } else { num(t, st) + one_if(next_called && at_entry(t, st)) }
}

// extending a path by the child its last entry points at (or starting one at the root)
proof fn lemma_path_push(t: int, root: u64, st: Seq<SearchPath>, e: SearchPath)
    requires
        tree_ok(t),
        st.len() == 0 ==> same_node(t, e.id, PageNodeID::Page(root)),
        st.len() > 0 ==> path_ok(t, root, st) && !node_leaf(t, st.last().id)
            && same_node(t, e.id, child_id(t, st.last().id, st.last().index as int)),
    ensures path_ok(t, root, st.push(e)),
{
    reveal(path_ok);
    let n = st.push(e);
    assert forall|k: int| 1 <= k < n.len() implies !node_leaf(t, n[k - 1].id)
        && same_node(t, (#[trigger] n[k]).id, child_id(t, n[k - 1].id, n[k - 1].index as int)) by {
        if k < st.len() { assert(n[k] == st[k] && n[k - 1] == st[k - 1]); }
    }
}

// the stack Cursor::advance produces is again a path from the root (no assumption about where the old one ended)
proof fn lemma_moved_path(t: int, root: u64, old_st: Seq<SearchPath>, fin: Seq<SearchPath>, j: int)
    requires tree_ok(t), path_ok(t, root, old_st), moved_one_slot(t, old_st, fin, j),
    ensures path_ok(t, root, fin),
{
    reveal(path_ok);
    let m = fin.len() as int;
    assert forall|i: int| 0 <= i < j implies old_st[i] == fin[i] by {
        assert(old_st.subrange(0, j)[i] == fin.subrange(0, j)[i]);
    }
    if j > 0 { assert(fin[0] == old_st[0]); }
    assert forall|k: int| 1 <= k < m implies !node_leaf(t, fin[k - 1].id)
        && same_node(t, (#[trigger] fin[k]).id, child_id(t, fin[k - 1].id, fin[k - 1].index as int)) by {
        if k < j {
            assert(fin[k] == old_st[k] && fin[k - 1] == old_st[k - 1]);
        } else if k == j {
            assert(fin[k - 1] == old_st[k - 1]);
            assert(same_node(t, old_st[k].id, child_id(t, old_st[k - 1].id, old_st[k - 1].index as int)));
        }
    }
}
proof fn lemma_path_root_only(t: int, root: u64, st: Seq<SearchPath>, fin: Seq<SearchPath>)
    requires path_ok(t, root, st), fin.len() == 1, fin[0] == st[0],
    ensures path_ok(t, root, fin),
{
    reveal(path_ok);
}
