// ---- prelude/errors.rs: the crate's Error type (real definition) + external std error types ----
//@include prelude/std_extra.rs
#[verifier::external_type_specification]
#[verifier::external_body]
pub struct ExIoError(std::io::Error);
#[verifier::external_type_specification]
#[verifier::external_body]
pub struct ExLayoutError(std::alloc::LayoutError);

//@item src/errors.rs enum Error
//@item src/errors.rs type Result

// vstd's `From` carries a spec-side extension; these impls promise nothing beyond the ensures below
impl vstd::std_specs::convert::FromSpecImpl<std::io::Error> for Error {
    open spec fn obeys_from_spec() -> bool { false }
    open spec fn from_spec(v: std::io::Error) -> Self { arbitrary() }
}
impl vstd::std_specs::convert::FromSpecImpl<std::alloc::LayoutError> for Error {
    open spec fn obeys_from_spec() -> bool { false }
    open spec fn from_spec(v: std::alloc::LayoutError) -> Self { arbitrary() }
}

//@fn Error_from_io
//@fn Error_from_layout
