// ---- prelude/open_spec.rs: specification vocabulary of the open path ----
pub uninterp spec fn freelist_view(bytes: Seq<u8>, id: int, pagesize: int) -> Seq<u64>;
// stub U14: the cast inside Page::freelist
#[verifier::external_body]
fn page_freelist_cast<'a>(p: &'a Page) -> (r: &'a [PageID])
    ensures r@ == freelist_view(page_src(p).0, page_src(p).1, page_src(p).2), r@.len() == p.count,
{ unimplemented!() }

// (which flags are on by default is a performance choice: C16 says they do not change behaviour, so the contract does not pin them)
pub closed spec fn oo_default_ok(o: OpenOptions) -> bool { oo_wf(o) }
pub closed spec fn oo_wf(o: OpenOptions) -> bool {
    o.pagesize >= 1024 && o.pagesize % 8 == 0 && o.num_pages >= 4
}
// m is a map of the file f (as returned by mmap)
pub uninterp spec fn map_of(f: File, m: Mmap) -> bool;
// what DBInner::open needs of the file it is given
spec fn open_pre(bytes: Seq<u8>, ps: int) -> bool {
    &&& ps + 40 <= bytes.len()
    &&& select_header(bytes, ps) is Some
    &&& valid_slots_have_pagesize(bytes, ps)
    &&& page_view(bytes, 0, ps) != page_view(bytes, 1, ps)
    &&& {
        let m = select_header(bytes, ps)->Some_0;
        &&& m.freelist_page * ps <= u64::MAX && (m.freelist_page * ps) % 8 == 0 && m.freelist_page * ps + 40 <= bytes.len()
        &&& page_view(bytes, m.freelist_page as int, ps).page_type == 4
    }
}
// the four pages a new database starts with (pinned constants of the format)
spec fn initial_meta_ok(m: Meta, slot: int, ps: int) -> bool {
    &&& m.meta_page == slot && m.magic == 0x00AB_CDEF && m.version == 1 && m.pagesize == ps
    &&& m.root.root_page == 3 && m.root.next_int == 0 && m.num_pages == 4 && m.freelist_page == 2
    &&& m.hash == fnv1a(meta_bytes(m))
}
spec fn hdr_page_ok(b: Seq<u8>, i: int, ps: int) -> bool {
    page_view(b, i, ps).id == i && page_view(b, i, ps).page_type == 3 && initial_meta_ok(meta_view(b, i, ps), i, ps)
}
spec fn initial_image(b: Seq<u8>, ps: int) -> bool {
    &&& b.len() == 4 * ps
    &&& forall|i: int| 0 <= i < 2 ==> #[trigger] hdr_page_ok(b, i, ps)
    &&& page_view(b, 2, ps).id == 2 && page_view(b, 2, ps).page_type == 4 && page_view(b, 2, ps).count == 0 && page_view(b, 2, ps).overflow == 0
    &&& page_view(b, 3, ps).id == 3 && page_view(b, 3, ps).page_type == 2 && page_view(b, 3, ps).count == 0 && page_view(b, 3, ps).overflow == 0
}
spec fn zero_page(b: Seq<u8>, j: int, ps: int) -> bool {
    page_view(b, j, ps).id == 0 && page_view(b, j, ps).page_type == 0 && page_view(b, j, ps).count == 0 && page_view(b, j, ps).overflow == 0
        && meta_view(b, j, ps).tx_id == 0 && meta_view(b, j, ps).root.next_int == 0
}
// rule D8: a documented panic never returns
#[verifier::external_body]
fn documented_panic()
    ensures false,
{ unimplemented!() }
