// ---- prelude/tree_frame.rs: ASSUMED frame of the (unverified) B+tree layer on the transaction's allocator state ----
// rebalance/spill/delete_bucket touch the TxFreelist only through TxFreelist::allocate / TxFreelist::free (T1/T2),
// so they preserve its invariants; they never touch the file.  This is assumption A-frame of DESIGN section 5 (W2).
//@include prelude/tree_frame_spec.rs
impl<'b> InnerBucket<'b> {
    #[verifier::external_body]
    fn rebalance(&mut self, tx_freelist: &mut TxFreelist) -> (r: Result<()>)
        ensures tree_frame(*old(tx_freelist), *final(tx_freelist)), !(r matches Err(Error::ReadOnlyTx)),
    { unimplemented!() }
    #[verifier::external_body]
    fn spill(&mut self, tx_freelist: &mut TxFreelist) -> (r: Result<BucketMeta>)
        ensures tree_frame(*old(tx_freelist), *final(tx_freelist)), !(r matches Err(Error::ReadOnlyTx)),
    { unimplemented!() }
}
// what TxInner::check promises on Ok (defined and proved in unit check; the commit path only needs to ESTABLISH check's precondition)
pub uninterp spec fn accounted(t: &TxInner, visited: Seq<u64>) -> bool;
//@include prelude/tx_commit_pre.rs
