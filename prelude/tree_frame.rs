// ---- prelude/tree_frame.rs: ASSUMED frame of the (unverified) B+tree layer on the transaction's allocator state ----
// rebalance/spill/delete_bucket touch the TxFreelist only through TxFreelist::allocate / TxFreelist::free (T1/T2),
// so they preserve its invariants; they never touch the file.  This is assumption A-frame of DESIGN section 5 (W2).
//@include prelude/tree_frame_spec.rs
impl<'b> InnerBucket<'b> {
    #[verifier::external_body]
    fn rebalance(&mut self, tx_freelist: &mut TxFreelist) -> (r: Result<()>)
        ensures tree_frame(*old(tx_freelist), *final(tx_freelist)), !(r matches Err(Error::ReadOnlyTx)),
    { unimplemented!() }
    #[verifier::external_body]
    fn spill(&mut self, tx_freelist: &mut TxFreelist) -> (r: Result<BucketMeta>)
        ensures tree_frame(*old(tx_freelist), *final(tx_freelist)), !(r matches Err(Error::ReadOnlyTx)),
    { unimplemented!() }
}
// what TxInner::check promises on Ok (defined and proved in unit check; the commit path only needs to ESTABLISH check's precondition)
pub uninterp spec fn accounted(t: &TxInner, visited: Seq<u64>) -> bool;
// what Tx::commit needs from the transaction it is called on (established by Tx::new, kept by the tree layer's frame)
spec fn tx_commit_pre(t: TxInner) -> bool {
    let f = t.freelist.cur();
    &&& t.db.inner.pagesize >= 1024 && f.meta.pagesize == t.db.inner.pagesize
    &&& f.meta.tx_id == t.meta.tx_id
    &&& txfl_inv(f)
    // the transaction's snapshot map was made with the handle's page size and covers the file as it was when the transaction began
    &&& tx_map_ok(t)
    &&& t.meta.freelist_page > 1 && t.num_freelist_pages > 0 && t.meta.freelist_page + t.num_freelist_pages <= u64::MAX
    // resource bound: whatever the tree layer allocates, the file offsets of the commit fit in u64
    &&& forall|f2: TxFreelist, root: BucketMeta| #![trigger tree_frame(f, f2), wd_fits(TxInner { meta: Meta { root, ..t.meta }, ..t }, f2)]
            tree_frame(f, f2) ==> wd_fits(TxInner { meta: Meta { root, ..t.meta }, ..t }, f2)
}

// the map a transaction reads through: made with the handle's page size (a multiple of 8), and covering the whole file as it
// was when the transaction began (DBInner keeps map length == file length: open maps the whole file, resize remaps it)
#[verifier::opaque]
spec fn tx_map_ok(t: TxInner) -> bool {
    &&& t.pages.pagesize == t.db.inner.pagesize && t.db.inner.pagesize % 8 == 0
    &&& (t.lock matches TxLock::Rw(g) ==> (*t.pages.data)@.len() >= g@.len())
}
