// number of entries of a node
spec fn nd_len(d: NodeData) -> nat {
    match d { NodeData::Branches(b) => b@.len(), NodeData::Leaves(l) => l@.len() }
}
