// ---- prelude/bytes_spec.rs: the byte view of a `Bytes` value (stand-ins for the external payload types; assumed) ----
pub mod bytes {
    use vstd::prelude::*;
    verus! {
    #[verifier::external_body]
    pub struct Bytes { _private: () }
    impl Bytes {
        pub uninterp spec fn view(&self) -> Seq<u8>;
        #[verifier::external_body]
        pub fn len(&self) -> (r: usize) ensures r == self@.len(), { unimplemented!() }
    }
    }
}
// `&bytes::Bytes` / `&String` coerced to `&[u8]` (Deref / as_bytes): the payload's bytes
#[verifier::external_body]
fn ext_bytes_as_slice(b: &bytes::Bytes) -> (r: &[u8])
    ensures r@ == b@,
{ unimplemented!() }
pub uninterp spec fn string_bytes(s: String) -> Seq<u8>;
#[verifier::external_body]
fn string_as_bytes(s: &String) -> (r: &[u8])
    ensures r@ == string_bytes(*s),
{ unimplemented!() }
#[verifier::external_body]
fn string_len(s: &String) -> (r: usize)
    ensures r == string_bytes(*s).len(),
{ unimplemented!() }
spec fn bview(b: Bytes) -> Seq<u8> {
    match b {
        Bytes::Slice(s) => s@,
        Bytes::Bytes(x) => x@,
        Bytes::Vec(v) => (*v)@,
        Bytes::String(s) => string_bytes(*s),
    }
}
// std: lexicographic comparison of byte slices, expressed over the same uninterpreted order the node / cursor units use
pub assume_specification<T: Ord> [<[T] as Ord>::cmp] (a: &[T], b: &[T]) -> (r: core::cmp::Ordering)
    ensures
        r is Less <==> slice_lt(a@, b@),
        r is Equal <==> a@ == b@;
