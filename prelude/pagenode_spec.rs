// ---- prelude/pagenode_spec.rs: the view of a resolved node, whichever representation it has ----
//@include prelude/nd_len.rs
spec fn pn_is_tree_node(pn: PageNode) -> bool {
    match pn { PageNode::Page(p) => p.page_type == 1 || p.page_type == 2, PageNode::Node(_) => true }
}
spec fn pn_leaf(pn: PageNode) -> bool {
    match pn { PageNode::Page(p) => p.page_type == 2, PageNode::Node(n) => n.cur().data is Leaves }
}
spec fn pn_len(pn: PageNode) -> nat {
    match pn { PageNode::Page(p) => p.count as nat, PageNode::Node(n) => nd_len(n.cur().data) }
}
// the element headers of a mapped page (stub views of the casts U17/U18)
pub uninterp spec fn page_leaf_elems(p: Page) -> Seq<LeafElement>;
pub uninterp spec fn page_branch_elems(p: Page) -> Seq<BranchElement>;
spec fn pn_key(pn: PageNode, i: int) -> Seq<u8> {
    match pn {
        PageNode::Page(p) => if p.page_type == 2 { page_leaf_elems(*p)[i].key_seq() } else { page_branch_elems(*p)[i].key_seq() },
        PageNode::Node(n) => match n.cur().data { NodeData::Branches(b) => b@[i].key_seq(), NodeData::Leaves(l) => l@[i].key_seq() },
    }
}
spec fn pn_child(pn: PageNode, i: int) -> u64 {
    match pn {
        PageNode::Page(p) => page_branch_elems(*p)[i].page,
        PageNode::Node(n) => match n.cur().data { NodeData::Branches(b) => b@[i].page, NodeData::Leaves(_) => 0 },
    }
}
spec fn pn_sorted(pn: PageNode) -> bool {
    forall|i: int, j: int| 0 <= i < j < pn_len(pn) ==> slice_lt::<u8>(#[trigger] pn_key(pn, i), #[trigger] pn_key(pn, j))
}
// insert_data as a map update on an ascending sequence
spec fn leaves_insert(old_l: Seq<Leaf>, leaf: Leaf, new_l: Seq<Leaf>) -> bool {
    ||| (exists|i: int| 0 <= i < old_l.len() && #[trigger] old_l[i].key_seq() == leaf.key_seq() && new_l == old_l.update(i, leaf))
    ||| ((forall|i: int| 0 <= i < old_l.len() ==> #[trigger] old_l[i].key_seq() != leaf.key_seq())
         && exists|i: int| 0 <= i <= old_l.len() && new_l == #[trigger] old_l.insert(i, leaf))
}
spec fn node_frame(a: Node, b: Node) -> bool {
    a.id == b.id && a.page_id == b.page_id && a.num_pages == b.num_pages && a.children == b.children && a.deleted == b.deleted
        && a.parent == b.parent && a.pagesize == b.pagesize && a.spilled == b.spilled
}

// entries built so far mirror the first entries of the page (taking `&Vec<..>` fixes the element type of a vector whose
// type the real code leaves to inference)
spec fn branches_mirror(d: &Vec<Branch>, p: Page, n: int) -> bool {
    d@.len() == n && forall|i: int| 0 <= i < d@.len() ==> (#[trigger] d@[i]).key_seq() == page_branch_elems(p)[i].key_seq()
        && d@[i].page == page_branch_elems(p)[i].page
}
spec fn leaves_mirror(d: &Vec<Leaf>, p: Page, n: int) -> bool {
    d@.len() == n && forall|i: int| 0 <= i < d@.len() ==> leaf_mirrors(#[trigger] d@[i], page_leaf_elems(p)[i])
}
// well-formed leaf page: every element is a key/value pair or a nested bucket (file well-formedness, C05 of the state read)
spec fn pn_kinds_ok(pn: PageNode) -> bool {
    match pn {
        PageNode::Page(p) => p.page_type == 2 ==> forall|i: int| 0 <= i < page_leaf_elems(*p).len()
            ==> (#[trigger] page_leaf_elems(*p)[i]).node_type == 0 || page_leaf_elems(*p)[i].node_type == 1,
        PageNode::Node(_) => true,
    }
}
// the entry slot i of a resolved leaf holds, as (key, is-a-pair, payload): what a read through either representation must return
spec fn pn_entry_is(pn: PageNode, i: int, l: Leaf) -> bool {
    match pn {
        PageNode::Page(p) => leaf_mirrors(l, page_leaf_elems(*p)[i]),
        PageNode::Node(n) => n.cur().data matches NodeData::Leaves(ls) && leaf_same(l, ls@[i]),
    }
}
