// ---- prelude/cursor_tree.rs: the tree a cursor walks, as an ASSUMED abstract interface (the B+tree layer is not under contract) ----
// A bucket's nodes are addressed by PageNodeID; for a given bucket value the functions below give each node's
// shape.  ASSUMPTIONS (structural soundness of the tree, i.e. C05 of the state the cursor runs on):
//   * a branch node is never empty, its children are strictly lower in the tree (finite height);
//   * the shape does not change while the cursor walks (sequential view of the RefCell).
pub struct InnerBucket<'b> {
    pub deleted: bool,
    pub meta: BucketMeta,
    pub _rest: core::marker::PhantomData<&'b ()>,
}
// `tree_of(b)` names the (abstract) tree a bucket value holds; the node_* functions read its shape
pub uninterp spec fn tree_of(b: InnerBucket) -> int;
pub uninterp spec fn node_len(b: int, id: PageNodeID) -> nat;
pub uninterp spec fn node_leaf(b: int, id: PageNodeID) -> bool;
pub uninterp spec fn node_child(b: int, id: PageNodeID, i: int) -> u64;
pub uninterp spec fn node_height(b: int, id: PageNodeID) -> nat;
pub uninterp spec fn node_canon(b: int, id: PageNodeID) -> PageNodeID;
// the slot (slot-before rule) and the exact-hit flag the node's binary search answers for a key
pub uninterp spec fn node_slot(b: int, id: PageNodeID, key: Seq<u8>) -> usize;
pub uninterp spec fn node_exact(b: int, id: PageNodeID, key: Seq<u8>) -> bool;      // PageNode::id(): a page that has an in-memory node answers with the node's id
spec fn tree_ok(b: int) -> bool {
    &&& forall|id: PageNodeID| #![trigger node_len(b, id)] node_len(b, id) <= usize::MAX
    &&& forall|id: PageNodeID| #![trigger node_leaf(b, id)] node_leaf(b, id) || node_len(b, id) > 0
    &&& forall|id: PageNodeID, i: int| #![trigger node_child(b, id, i)] !node_leaf(b, id) && 0 <= i < node_len(b, id)
            ==> node_child(b, id, i) > 1 && node_height(b, PageNodeID::Page(node_child(b, id, i))) < node_height(b, id)
    &&& forall|id: PageNodeID| #![trigger node_canon(b, id)] node_len(b, node_canon(b, id)) == node_len(b, id)
            && node_leaf(b, node_canon(b, id)) == node_leaf(b, id) && node_height(b, node_canon(b, id)) == node_height(b, id)
            && (forall|i: int| node_child(b, node_canon(b, id), i) == node_child(b, id, i))
            && (forall|k: Seq<u8>| node_slot(b, node_canon(b, id), k) == node_slot(b, id, k) && node_exact(b, node_canon(b, id), k) == node_exact(b, id, k))
}

#[verifier::external_body]
pub struct Leaf<'a> { _p: core::marker::PhantomData<&'a ()> }
#[verifier::external_body]
pub struct Data<'b, 'tx> { _p: core::marker::PhantomData<(&'b (), &'tx ())> }
impl<'b, 'tx> vstd::std_specs::convert::FromSpecImpl<Leaf<'tx>> for Data<'b, 'tx> {
    open spec fn obeys_from_spec() -> bool { false }
    open spec fn from_spec(v: Leaf<'tx>) -> Self { arbitrary() }
}
impl<'b, 'tx> From<Leaf<'tx>> for Data<'b, 'tx> {
    #[verifier::external_body]
    fn from(val: Leaf<'tx>) -> Self { unimplemented!() }
}

// a resolved node (PageNode::Page / PageNode::Node in the real code), by contract
pub struct PageNode<'a> {
    pub _p: core::marker::PhantomData<&'a ()>,
    pub g_bucket: Ghost<int>, pub g_id: Ghost<PageNodeID>,
}
impl<'a> PageNode<'a> {
    pub closed spec fn of(&self, b: int, id: PageNodeID) -> bool { self.g_bucket@ == b && self.g_id@ == id }
    #[verifier::external_body]
    pub fn id(&self) -> (r: PageNodeID)
        ensures r == node_canon(self.g_bucket@, self.g_id@),
    { unimplemented!() }
    #[verifier::external_body]
    pub fn leaf(&self) -> (r: bool)
        ensures r == node_leaf(self.g_bucket@, self.g_id@),
    { unimplemented!() }
    #[verifier::external_body]
    pub fn len(&self) -> (r: usize)
        ensures r == node_len(self.g_bucket@, self.g_id@),
    { unimplemented!() }
    // panics on a leaf; called with a slot of the node only (contract of PageNode_index_page, unit pagenode)
    #[verifier::external_body]
    pub fn index_page(&self, index: usize) -> (r: PageID)
        requires !node_leaf(self.g_bucket@, self.g_id@), index < node_len(self.g_bucket@, self.g_id@),
        ensures
            r == node_child(self.g_bucket@, self.g_id@, index as int),
    { unimplemented!() }
    // binary search with the slot-before rule: (i, true) for an exact hit, else (insertion point - 1, saturating, false)
    #[verifier::external_body]
    pub fn index(&self, key: &[u8]) -> (r: (usize, bool))
        ensures
            node_len(self.g_bucket@, self.g_id@) > 0 ==> r.0 < node_len(self.g_bucket@, self.g_id@),
            node_len(self.g_bucket@, self.g_id@) == 0 ==> r.0 == 0 && !r.1,
            // what the node's own binary search answers for this key (proved per node in unit pagenode: PageNode_index)
            r.0 == node_slot(self.g_bucket@, self.g_id@, key@), r.1 == node_exact(self.g_bucket@, self.g_id@, key@),
    { unimplemented!() }
    // panics on a branch; None past the end
    #[verifier::external_body]
    pub fn val<'b>(&'b self, index: usize) -> (r: Option<Leaf<'a>>)
        requires node_leaf(self.g_bucket@, self.g_id@),
        ensures r is Some <==> index < node_len(self.g_bucket@, self.g_id@),
    { unimplemented!() }
}
impl<'b> InnerBucket<'b> {
    #[verifier::external_body]
    pub fn page_node<'a>(&'a self, id: PageNodeID) -> (r: PageNode<'b>)
        ensures r.of(tree_of(*self), id),
    { unimplemented!() }
    // bookkeeping of parent links: does not change the shape of the tree
    #[verifier::external_body]
    pub fn add_page_parent(&mut self, page: PageID, parent: PageID)
        ensures
            final(self).deleted == old(self).deleted, final(self).meta == old(self).meta,
            tree_of(*final(self)) == tree_of(*old(self)),
    { unimplemented!() }
}
// stub U16: `key.as_ref()` for T: AsRef<[u8]>
#[verifier::external_body]
fn as_ref_bytes<T: AsRef<[u8]>>(k: &T) -> (r: &[u8])
    ensures r@ == key_bytes(*k),
{ unimplemented!() }
pub uninterp spec fn key_bytes<T>(k: T) -> Seq<u8>;
