// ---- prelude/check_spec.rs: what it means for TxInner::check to answer Ok (C05: every page accounted for exactly once) ----
pub uninterp spec fn page_src(p: &Page) -> (Seq<u8>, int, int);
pub uninterp spec fn freelist_view(bytes: Seq<u8>, id: int, pagesize: int) -> Seq<u64>;
// stub U14: the cast inside Page::freelist
#[verifier::external_body]
fn page_freelist_cast<'a>(p: &'a Page) -> (r: &'a [PageID])
    ensures r@ == freelist_view(page_src(p).0, page_src(p).1, page_src(p).2), r@.len() == p.count,
{ unimplemented!() }
spec fn page_free_ids(p: Page) -> Seq<u64> { freelist_view(page_src(&p).0, page_src(&p).1, page_src(&p).2) }
// the page a page id denotes in the snapshot check() looks at
spec fn pg(t: &TxInner, id: u64) -> Page { page_view((*t.pages.data)@, id as int, t.pages.pagesize as int) }
// the run a page occupies: id, id+1, .., id+overflow
spec fn run_ids(id: u64, n: int) -> Seq<u64> { Seq::new(n as nat, |i: int| (id + i) as u64) }
// the pages a tree page links to: the children of a branch page, the roots of the nested buckets of a leaf page
spec fn branch_links(s: Seq<BranchElement>) -> Seq<u64> { Seq::new(s.len(), |i: int| s[i].page) }
spec fn leaf_links(s: Seq<LeafElement>) -> Seq<u64>
    decreases s.len(),
{
    if s.len() == 0 { Seq::empty() }
    else if s.last().node_type == 1 { leaf_links(s.drop_last()).push(meta_of_bytes(s.last().val_seq()).root_page) }
    else { leaf_links(s.drop_last()) }
}
spec fn links(p: Page) -> Seq<u64> {
    if p.page_type == 1 { branch_links(page_branch_elems(p)) } else if p.page_type == 2 { leaf_links(page_leaf_elems(p)) } else { Seq::empty() }
}
// what one visited page accounts for: its own run, and (the free-list page) the ids it lists
spec fn claims(p: Page, id: u64) -> Seq<u64> {
    run_ids(id, p.overflow + 1) + (if p.page_type == 4 { page_free_ids(p) } else { Seq::<u64>::empty() })
}
spec fn all_claims(t: &TxInner, visited: Seq<u64>) -> Seq<u64>
    decreases visited.len(),
{
    if visited.len() == 0 { Seq::empty() } else { all_claims(t, visited.drop_last()) + claims(pg(t, visited.last()), visited.last()) }
}
// neighbouring keys strictly ascending
spec fn adjacent_ascending<E: HasKey>(s: Seq<E>) -> bool {
    forall|i: int| 0 < i < s.len() ==> slice_lt::<u8>(#[trigger] s[i - 1].key_seq(), s[i].key_seq())
}
// the per-page checks: a known page type, the free-list page only where the header says, keys in order, known entry kinds
spec fn page_checks(t: &TxInner, id: u64) -> bool {
    let p = pg(t, id);
    &&& (p.page_type == 1 || p.page_type == 2 || p.page_type == 4)
    &&& (p.page_type == 4 ==> id == t.meta.freelist_page)
    &&& (p.page_type == 1 ==> adjacent_ascending(page_branch_elems(p)))
    &&& (p.page_type == 2 ==> adjacent_ascending(page_leaf_elems(p))
            && forall|i: int| 0 <= i < page_leaf_elems(p).len() ==> (#[trigger] page_leaf_elems(p)[i]).node_type == 0 || page_leaf_elems(p)[i].node_type == 1)
}
// Ok means: there is a list of visited pages, containing the root bucket's root and the free-list page and closed under
// links, such that what these pages account for is, WITHOUT REPETITION, exactly the ids 2 .. num_pages-1
spec fn accounted(t: &TxInner, visited: Seq<u64>) -> bool {
    &&& visited.contains(t.meta.root.root_page) && visited.contains(t.meta.freelist_page)
    &&& forall|i: int, j: int| 0 <= i < visited.len() && 0 <= j < links(pg(t, visited[i])).len() ==> visited.contains(#[trigger] links(pg(t, #[trigger] visited[i]))[j])
    &&& forall|i: int| 0 <= i < visited.len() ==> page_checks(t, #[trigger] visited[i])
    &&& all_claims(t, visited).no_duplicates()
    &&& forall|p: u64| 2 <= p < t.meta.num_pages <==> all_claims(t, visited).contains(p)
}
// ---- proof helpers ----
proof fn lemma_push_fresh(s: Seq<u64>, x: u64)
    requires s.no_duplicates(), !s.contains(x),
    ensures s.push(x).no_duplicates(), forall|y: u64| s.push(x).contains(y) <==> s.contains(y) || y == x,
{
    let t = s.push(x);
    assert forall|i: int, j: int| 0 <= i < t.len() && 0 <= j < t.len() && i != j implies t[i] != t[j] by {
        if i < s.len() && j < s.len() { assert(s[i] != s[j]); }
        else if i < s.len() { assert(s.contains(s[i])); }
        else if j < s.len() { assert(s.contains(s[j])); }
    }
    assert forall|y: u64| t.contains(y) <==> s.contains(y) || y == x by {
        if s.contains(y) { let i = choose|i: int| 0 <= i < s.len() && s[i] == y; assert(t[i] == y); }
        if y == x { assert(t[s.len() as int] == x); }
        if t.contains(y) { let i = choose|i: int| 0 <= i < t.len() && t[i] == y; if i < s.len() { assert(s[i] == y); } }
    }
}
proof fn lemma_run_push(id: u64, n: int)
    requires n >= 0, id + n <= u64::MAX,
    ensures run_ids(id, n + 1) == run_ids(id, n).push((id + n) as u64),
{
    assert(run_ids(id, n + 1) =~= run_ids(id, n).push((id + n) as u64));
}
proof fn lemma_all_claims_push(t: &TxInner, visited: Seq<u64>, p: u64)
    ensures all_claims(t, visited.push(p)) == all_claims(t, visited) + claims(pg(t, p), p),
{
    assert(visited.push(p).drop_last() == visited);
    assert(visited.push(p).last() == p);
}
proof fn lemma_leaf_links_push(s: Seq<LeafElement>, i: int)
    requires 0 <= i < s.len(),
    ensures leaf_links(s.subrange(0, i + 1)) == (if s[i].node_type == 1 { leaf_links(s.subrange(0, i)).push(meta_of_bytes(s[i].val_seq()).root_page) } else { leaf_links(s.subrange(0, i)) }),
{
    assert(s.subrange(0, i + 1).drop_last() == s.subrange(0, i));
    assert(s.subrange(0, i + 1).last() == s[i]);
}
