// rule R7: `V.sort_unstable()` -> `V.sort_unstable_v()`: one shim for a Vec<u64> and for a Vec<u64> behind a MutexGuard
pub trait SortUnstableV {
    spec fn seq_v(&self) -> Seq<u64>;
    fn sort_unstable_v(&mut self)
        ensures sorted(final(self).seq_v()), final(self).seq_v().to_multiset() == old(self).seq_v().to_multiset();
}
impl SortUnstableV for Vec<u64> {
    open spec fn seq_v(&self) -> Seq<u64> { self@ }
    #[verifier::external_body]
    fn sort_unstable_v(&mut self) { unimplemented!() }
}
