// rule R7: `V.sort_unstable()` -> `V.sort_unstable_v()`: one shim for a Vec<u64> and for a Vec<u64> behind a MutexGuard
pub trait SortUnstableV {
    spec fn seq_v(&self) -> Seq<u64>;
    fn sort_unstable_v(&mut self)
        ensures sorted(final(self).seq_v()), final(self).seq_v().to_multiset() == old(self).seq_v().to_multiset();
    // rule R11: std's contract of slice::binary_search on an ascending list (unspecified result otherwise)
    fn binary_search_v(&self, x: &u64) -> (r: core::result::Result<usize, usize>)
        ensures sorted(self.seq_v()) ==> bsearch_result(self.seq_v(), *x, r);
}
pub open spec fn bsearch_result(s: Seq<u64>, x: u64, r: core::result::Result<usize, usize>) -> bool {
    match r {
        Ok(i) => i < s.len() && s[i as int] == x,
        Err(i) => i <= s.len() && (forall|j: int| 0 <= j < i ==> s[j] < x) && (forall|j: int| i <= j < s.len() ==> s[j] > x),
    }
}
impl SortUnstableV for Vec<u64> {
    open spec fn seq_v(&self) -> Seq<u64> { self@ }
    #[verifier::external_body]
    fn sort_unstable_v(&mut self) { unimplemented!() }
    #[verifier::external_body]
    fn binary_search_v(&self, x: &u64) -> (r: core::result::Result<usize, usize>) { unimplemented!() }
}
