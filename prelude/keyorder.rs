// ---- prelude/keyorder.rs: byte-string key order (uninterpreted strict total order; laws assumed) ----
pub uninterp spec fn slice_lt<T>(a: Seq<T>, b: Seq<T>) -> bool;
pub assume_specification<T: PartialOrd> [<[T] as PartialOrd<[T]>>::lt] (a: &[T], b: &[T]) -> (r: bool)
    ensures r == slice_lt(a@, b@);
pub assume_specification<T: PartialOrd> [<[T] as PartialOrd<[T]>>::le] (a: &[T], b: &[T]) -> (r: bool)
    ensures r == (slice_lt(a@, b@) || a@ == b@);
pub assume_specification<T: PartialOrd> [<[T] as PartialOrd<[T]>>::ge] (a: &[T], b: &[T]) -> (r: bool)
    ensures r == !slice_lt(a@, b@);
pub assume_specification<T: PartialOrd> [<[T] as PartialOrd<[T]>>::gt] (a: &[T], b: &[T]) -> (r: bool)
    ensures r == slice_lt(b@, a@);
#[verifier::external_body]
pub proof fn axiom_key_order()
    ensures
        forall|a: Seq<u8>| !#[trigger] slice_lt::<u8>(a, a),
        forall|a: Seq<u8>, b: Seq<u8>, c: Seq<u8>| #[trigger] slice_lt::<u8>(a, b) && #[trigger] slice_lt::<u8>(b, c) ==> slice_lt::<u8>(a, c),
        forall|a: Seq<u8>, b: Seq<u8>| #[trigger] slice_lt::<u8>(a, b) || a == b || slice_lt::<u8>(b, a),
{
}
