// ---- prelude/sort_by_key.rs: rule R18, std's contract of `sort_unstable_by_key` with the entry's key as the sort key (ASSUMED) ----
// afterwards the vector is a permutation of what it held, in non-decreasing key order
spec fn keys_nondecreasing<E: HasKey>(s: Seq<E>) -> bool {
    forall|i: int, j: int| 0 <= i < j < s.len() ==> !slice_lt::<u8>(#[trigger] s[j].key_seq(), #[trigger] s[i].key_seq())
}
trait SortByEntryKeyV<E: HasKey> {
    fn sort_by_entry_key_v(&mut self)
        ensures keys_nondecreasing(final(self).elems_v()), final(self).elems_v().to_multiset() == old(self).elems_v().to_multiset();
    spec fn elems_v(&self) -> Seq<E>;
}
impl<E: HasKey> SortByEntryKeyV<E> for Vec<E> {
    spec fn elems_v(&self) -> Seq<E> { self@ }
    #[verifier::external_body]
    fn sort_by_entry_key_v(&mut self) { unimplemented!() }
}
// non-decreasing order over pairwise different keys is strictly ascending order
proof fn lemma_nondecreasing_distinct_is_ascending<E: HasKey>(s: Seq<E>)
    requires keys_nondecreasing(s), forall|i: int, j: int| 0 <= i < j < s.len() ==> #[trigger] s[i].key_seq() != #[trigger] s[j].key_seq(),
    ensures keys_ascending(s),
{
    axiom_key_order();
}
// entries of a node as multisets (whichever kind)
spec fn nd_ms_b(d: NodeData) -> vstd::multiset::Multiset<Branch> { nd_b(d).to_multiset() }
spec fn nd_ms_l(d: NodeData) -> vstd::multiset::Multiset<Leaf> { nd_l(d).to_multiset() }
spec fn nd_nondecreasing(d: NodeData) -> bool {
    match d { NodeData::Branches(b) => keys_nondecreasing(b@), NodeData::Leaves(l) => keys_nondecreasing(l@) }
}
