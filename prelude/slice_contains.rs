// ---- prelude/slice_contains.rs ----
// std: slice::contains.  ASSUMED for element types whose `==` is structural equality (used at u64 only)
pub assume_specification<T: PartialEq> [<[T]>::contains] (s: &[T], x: &T) -> (r: bool)
    ensures r == s@.contains(*x);
