//@append src/db.rs
//@covers TxInner_check Leaf_from_leaf Node_from_page Page_leaf_elements
// Bounded, executable version of the contract of TxInner::check (unit check: Ok only if every page below the high-water mark
// is accounted for exactly once, types and kinds known): healthy files with a multi-level tree, a nested bucket, a value
// spanning several pages and a non-empty free list are DAMAGED structurally (the header checksum does not cover tree or
// free-list pages) and DB::check() must answer an error for every damaged file, Ok for the healthy one.
// Bound: page sizes 1024 and 4096, the eight damages below.  Finding nothing proves nothing.
#[cfg(test)]
mod verif_cex_checker {
    use crate::{OpenOptions, DB};
    use crate::page::Page;
    fn rd64(b: &[u8], o: usize) -> u64 { u64::from_le_bytes(b[o..o + 8].try_into().unwrap()) }
    fn wr64(b: &mut [u8], o: usize, v: u64) { b[o..o + 8].copy_from_slice(&v.to_le_bytes()); }
    #[test]
    fn cex_check_rejects_structural_damage() {
        for &ps in &[1024u64, 4096] {
            let p = std::env::temp_dir().join(format!("jammdb-cex-checker-{}-{}.db", ps, std::process::id()));
            let _ = std::fs::remove_file(&p);
            let (root, fl, np);
            {
                let db: DB = OpenOptions::new().pagesize(ps).open(&p).unwrap();
                {
                    let tx = db.tx(true).unwrap();
                    let b = tx.create_bucket("b").unwrap();
                    for i in 0..120u32 { b.put(format!("key{:05}", i), vec![b'v'; 100]).unwrap(); }
                    b.put("big", vec![b'B'; (ps * 3) as usize]).unwrap();
                    b.create_bucket("nested").unwrap().put("x", "y").unwrap();
                    tx.commit().unwrap();
                }
                { let tx = db.tx(true).unwrap(); let b = tx.get_bucket("b").unwrap(); for i in 0..40u32 { b.delete(format!("key{:05}", i)).unwrap(); } tx.commit().unwrap(); }
                { let tx = db.tx(true).unwrap(); tx.get_bucket("b").unwrap().put("one-more", "z").unwrap(); tx.commit().unwrap(); }
                db.check().expect("the healthy file must pass its own check");
                let m = db.inner.meta().unwrap();
                root = m.root.root_page; fl = m.freelist_page; np = m.num_pages;
            }
            let healthy = std::fs::read(&p).unwrap();
            let psz = ps as usize;
            let page_off = |id: u64| id as usize * psz;
            // walk: find a run with overflow >= 1, a branch page, a leaf page
            let mut over: Option<u64> = None; let mut branch: Option<u64> = None; let mut leaf: Option<u64> = None;
            let mut stack = vec![root];
            while let Some(id) = stack.pop() {
                let o = page_off(id);
                let ty = healthy[o + 8]; let count = rd64(&healthy, o + 16) as usize; let ov = rd64(&healthy, o + 24);
                if ov >= 1 && over.is_none() { over = Some(id); }
                if ty == Page::TYPE_BRANCH { branch.get_or_insert(id); for i in 0..count { stack.push(rd64(&healthy, o + 32 + i * 24)); } }
                if ty == Page::TYPE_LEAF {
                    leaf.get_or_insert(id);
                    for i in 0..count { let e = o + 32 + i * 32; if healthy[e] == 1 { let pos = rd64(&healthy, e + 8) as usize; let ks = rd64(&healthy, e + 16) as usize; stack.push(rd64(&healthy, e + pos + ks)); } }
                }
            }
            let flo = page_off(fl);
            let flcount = rd64(&healthy, flo + 16) as usize;
            let mut damages: Vec<(String, Vec<u8>)> = Vec::new();
            if let Some(id) = over { let mut b = healthy.clone(); wr64(&mut b, flo + 32 + flcount * 8, id + 1); wr64(&mut b, flo + 16, flcount as u64 + 1); damages.push((format!("page {} (an OVERFLOW page of the live run starting at {}) is also entered in the free list", id + 1, id), b)); }
            if let Some(id) = leaf { let mut b = healthy.clone(); wr64(&mut b, flo + 32 + flcount * 8, id); wr64(&mut b, flo + 16, flcount as u64 + 1); damages.push((format!("live leaf page {} is also entered in the free list", id), b)); }
            if flcount > 0 { let mut b = healthy.clone(); wr64(&mut b, flo + 16, flcount as u64 - 1); damages.push(("the last entry of the free list is dropped (a page accounted for by nobody)".to_string(), b)); }
            if flcount > 1 { let mut b = healthy.clone(); let first = rd64(&healthy, flo + 32); wr64(&mut b, flo + 40, first); damages.push(("the free list names its first page twice".to_string(), b)); }
            if let Some(id) = branch { let o = page_off(id); if rd64(&healthy, o + 16) >= 2 { let mut b = healthy.clone(); let c0 = rd64(&healthy, o + 32); wr64(&mut b, o + 32 + 24, c0); damages.push((format!("branch page {}: the second child link points at the first child again", id), b)); } }
            if let Some(id) = leaf { let mut b = healthy.clone(); b[page_off(id) + 32] = 7; damages.push((format!("leaf page {}: the first entry has the unknown kind 7", id), b)); }
            if let Some(id) = leaf { let mut b = healthy.clone(); b[page_off(id) + 8] = 9; damages.push((format!("page {} (a leaf) has the unknown page type 9", id), b)); }
            if let Some(id) = over { let mut b = healthy.clone(); let ov = rd64(&healthy, page_off(id) + 24); wr64(&mut b, page_off(id) + 24, ov + np); damages.push((format!("the run at page {} claims {} overflow pages (beyond the end of the file)", id, ov + np), b)); }
            for (what, bytes) in damages {
                std::fs::write(&p, &bytes).unwrap();
                let r = std::panic::catch_unwind(|| { let db = OpenOptions::new().pagesize(ps).open(&p)?; db.check() });
                match r {
                    Ok(Ok(())) => { println!("CEX TxInner::check (C05 the consistency check is sound): history: healthy file at page size {} ({} pages; multi-level bucket, nested bucket, a value of three pages, free list of {} ids), then damaged: {}: DB::check() answers Ok", ps, np, flcount, what); panic!("check-accepts"); }
                    Ok(Err(_)) => {}
                    Err(_) => { println!("CEX TxInner::check (C05 / no panic): history: healthy file at page size {}, then damaged: {}: DB::check() panics instead of answering an error", ps, what); panic!("check-panics"); }
                }
            }
            let _ = std::fs::remove_file(&p);
        }
    }

    // ---- C15: bytes the pinned layout leaves unassigned (padding behind the one-byte page type and the one-byte entry kind)
    // carry no meaning: files written by the pinned release hold arbitrary values there.  Scribbling over them must change
    // nothing: same contents, check() passes, further commits work
    #[test]
    fn cex_padding_bytes_carry_no_meaning() {
        use crate::Data;
        for &ps in &[1024u64, 4096] {
            let p = std::env::temp_dir().join(format!("jammdb-cex-padding-{}-{}.db", ps, std::process::id()));
            let _ = std::fs::remove_file(&p);
            let root;
            let read = |db: &DB| -> Vec<(Vec<u8>, Vec<u8>)> {
                let tx = db.tx(false).unwrap();
                let b = tx.get_bucket("b").unwrap();
                let mut out: Vec<(Vec<u8>, Vec<u8>)> = b.cursor().map(|d| match d { Data::KeyValue(kv) => (kv.key().to_vec(), kv.value().to_vec()), Data::Bucket(n) => (n.name().to_vec(), b"<bucket>".to_vec()) }).collect();
                let nb = b.get_bucket("nested").unwrap();
                out.extend(nb.cursor().map(|d| match d { Data::KeyValue(kv) => (kv.key().to_vec(), kv.value().to_vec()), Data::Bucket(n) => (n.name().to_vec(), vec![]) }));
                out
            };
            let before;
            {
                let db: DB = OpenOptions::new().pagesize(ps).open(&p).unwrap();
                {
                    let tx = db.tx(true).unwrap();
                    let b = tx.create_bucket("b").unwrap();
                    for i in 0..150u32 { b.put(format!("key{:05}", i), vec![b'v'; 90]).unwrap(); }
                    b.put("big", vec![b'B'; (ps * 2 + 17) as usize]).unwrap();
                    let nb = b.create_bucket("nested").unwrap();
                    for i in 0..30u32 { nb.put(format!("n{:03}", i), vec![b'n'; 60]).unwrap(); }
                    tx.commit().unwrap();
                }
                { let tx = db.tx(true).unwrap(); let b = tx.get_bucket("b").unwrap(); for i in 0..20u32 { b.delete(format!("key{:05}", i)).unwrap(); } tx.commit().unwrap(); }
                before = read(&db);
                root = db.inner.meta().unwrap().root.root_page;
            }
            let mut bytes = std::fs::read(&p).unwrap();
            let psz = ps as usize;
            let mut stack = vec![root];
            let mut touched = 0usize;
            while let Some(id) = stack.pop() {
                let o = id as usize * psz;
                let ty = bytes[o + 8]; let count = rd64(&bytes, o + 16) as usize;
                for k in 9..16 { bytes[o + k] = 0x5A; touched += 1; }
                if ty == Page::TYPE_BRANCH { for i in 0..count { stack.push(rd64(&bytes, o + 32 + i * 24)); } }
                if ty == Page::TYPE_LEAF {
                    for i in 0..count {
                        let e = o + 32 + i * 32;
                        if bytes[e] == 1 { let pos = rd64(&bytes, e + 8) as usize; let ks = rd64(&bytes, e + 16) as usize; stack.push(rd64(&bytes, e + pos + ks)); }
                        for k in 1..8 { bytes[e + k] = 0xA5; touched += 1; }
                    }
                }
            }
            std::fs::write(&p, &bytes).unwrap();
            let what = format!("history: healthy file at page size {} (multi-level bucket, nested bucket, a value of three pages), then the {} PADDING bytes behind every page type and every entry kind are overwritten with 0x5A / 0xA5", ps, touched);
            let r = std::panic::catch_unwind(|| {
                let db = OpenOptions::new().pagesize(ps).open(&p).map_err(|e| format!("open fails: {:?}", e))?;
                db.check().map_err(|e| format!("DB::check() fails: {:?}", e))?;
                let now = read(&db);
                { let tx = db.tx(true).map_err(|e| format!("{:?}", e))?; tx.get_bucket("b").map_err(|e| format!("{:?}", e))?.put("after", "x").map_err(|e| format!("{:?}", e))?; tx.commit().map_err(|e| format!("a further commit fails: {:?}", e))?; }
                db.check().map_err(|e| format!("DB::check() fails after a further commit: {:?}", e))?;
                Ok::<_, String>(now)
            });
            match r {
                Ok(Ok(now)) if now == before => {}
                Ok(Ok(now)) => { println!("CEX C15 (padding carries no meaning): {}: the contents differ ({} entries before, {} now)", what, before.len(), now.len()); panic!("padding-contents"); }
                Ok(Err(e)) => { println!("CEX C15 (padding carries no meaning): {}: {}", what, e); panic!("padding-err"); }
                Err(_) => { println!("CEX C15 (padding carries no meaning): {}: the library panics", what); panic!("padding-panic"); }
            }
            let _ = std::fs::remove_file(&p);
        }
    }
    // ---- C15: a free-list page that names some ids TWICE.  The pinned release writes such lists (it frees the pages of a nested
    // bucket twice when the bucket and then its parent are deleted in one transaction; the list is sorted, the repeats are
    // neighbours).  Such files open with the right contents and keep accepting commits: the loader collects the ids in a set
    #[test]
    fn cex_free_list_with_repeated_ids_is_loaded() {
        use crate::Data;
        for &ps in &[1024u64, 4096] {
            let p = std::env::temp_dir().join(format!("jammdb-cex-repeats-{}-{}.db", ps, std::process::id()));
            let _ = std::fs::remove_file(&p);
            let read = |db: &DB| -> Vec<(Vec<u8>, Vec<u8>)> {
                let tx = db.tx(false).unwrap();
                let b = tx.get_bucket("b").unwrap();
                b.cursor().map(|d| match d { Data::KeyValue(kv) => (kv.key().to_vec(), kv.value().to_vec()), Data::Bucket(n) => (n.name().to_vec(), b"<bucket>".to_vec()) }).collect()
            };
            let (before, fl);
            {
                let db: DB = OpenOptions::new().pagesize(ps).open(&p).unwrap();
                { let tx = db.tx(true).unwrap(); let b = tx.create_bucket("b").unwrap(); for i in 0..150u32 { b.put(format!("key{:05}", i), vec![b'v'; 90]).unwrap(); } tx.commit().unwrap(); }
                { let tx = db.tx(true).unwrap(); let b = tx.get_bucket("b").unwrap(); for i in 0..100u32 { b.delete(format!("key{:05}", i)).unwrap(); } tx.commit().unwrap(); }
                { let tx = db.tx(true).unwrap(); tx.get_bucket("b").unwrap().put("one-more", "z").unwrap(); tx.commit().unwrap(); }
                before = read(&db);
                fl = db.inner.meta().unwrap().freelist_page;
            }
            let mut bytes = std::fs::read(&p).unwrap();
            let flo = fl as usize * ps as usize;
            let count = rd64(&bytes, flo + 16) as usize;
            let ids: Vec<u64> = (0..count).map(|i| rd64(&bytes, flo + 32 + i * 8)).collect();
            // every second id is named twice, as far as the page has room
            let room = (ps as usize - 32) / 8;
            let mut out: Vec<u64> = Vec::new();
            for (i, id) in ids.iter().enumerate() { out.push(*id); if i % 2 == 1 && out.len() + (count - i - 1) < room { out.push(*id); } }
            if out.len() == count || count < 2 { println!("cex repeats: no room to repeat an id at page size {} (free list of {} ids), skipped", ps, count); let _ = std::fs::remove_file(&p); continue; }
            for (i, id) in out.iter().enumerate() { wr64(&mut bytes, flo + 32 + i * 8, *id); }
            wr64(&mut bytes, flo + 16, out.len() as u64);
            std::fs::write(&p, &bytes).unwrap();
            let what = format!("history: healthy file at page size {} with a free list of {} ids {:?}; the free-list page is rewritten with every second id named twice (sorted, {} entries), as the pinned release writes after deleting a nested bucket and then its parent", ps, count, ids, out.len());
            let r = std::panic::catch_unwind(|| {
                let now;
                {
                    let db = OpenOptions::new().pagesize(ps).open(&p).map_err(|e| format!("open fails: {:?}", e))?;
                    now = read(&db);
                    for k in 0..3u32 { let tx = db.tx(true).map_err(|e| format!("{:?}", e))?; tx.get_bucket("b").map_err(|e| format!("{:?}", e))?.put(format!("after{}", k), vec![b'a'; 300]).map_err(|e| format!("{:?}", e))?; tx.commit().map_err(|e| format!("a further commit fails: {:?}", e))?; }
                    db.check().map_err(|e| format!("DB::check() fails after further commits: {:?}", e))?;
                }
                let db = OpenOptions::new().pagesize(ps).open(&p).map_err(|e| format!("reopen fails: {:?}", e))?;
                db.check().map_err(|e| format!("DB::check() fails after reopening: {:?}", e))?;
                let later = read(&db);
                if later.len() != now.len() + 3 { return Err(format!("after three more commits and a reopen the bucket shows {} entries, expected {}", later.len(), now.len() + 3)); }
                Ok::<_, String>(now)
            });
            match r {
                Ok(Ok(now)) if now == before => {}
                Ok(Ok(now)) => { println!("CEX C15 (repeated ids in the free list): {}: the contents differ ({} entries before, {} now)", what, before.len(), now.len()); panic!("repeats-contents"); }
                Ok(Err(e)) => { println!("CEX C15 (repeated ids in the free list): {}: {}", what, e); panic!("repeats-err"); }
                Err(_) => { println!("CEX C15 (repeated ids in the free list): {}: opening or using the file panics", what); panic!("repeats-panic"); }
            }
            let _ = std::fs::remove_file(&p);
        }
    }
}
