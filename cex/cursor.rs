//@append src/cursor.rs
//@covers Cursor_next Cursor_seek Cursor_current Cursor_seek_first Range_next search
// Bounded, executable version of C07/C08 for the cursor layer on the REAL crate: the complete read API of one bucket
// (full scan, seek + iterate, ranges with every kind of bound, point lookups) is compared with a BTreeMap model
// after every operation of one write transaction, and again after commit.
// Bound: page size 1024; three starting shapes (single leaf, two levels, three levels); scripted operation
// sequences that empty whole leaves (first / middle / last / several in a row), leave one entry, and re-insert;
// seek keys and range bounds drawn from the keys present, absent neighbours, below the minimum and above the maximum.
#[cfg(test)]
mod verif_cex_cursor {
    use crate::{Data, OpenOptions, Bucket};
    use std::collections::BTreeMap;
    use std::ops::Bound;
    type Model = BTreeMap<Vec<u8>, Vec<u8>>;

    fn key(i: u32, klen: usize) -> Vec<u8> {
        let mut k = format!("k{:05}", i * 2).into_bytes();
        while k.len() < klen { k.push(b'_'); }
        k
    }
    fn odd_key(i: u32, klen: usize) -> Vec<u8> {
        let mut k = format!("k{:05}", i * 2 + 1).into_bytes();
        while k.len() < klen { k.push(b'_'); }
        k
    }
    fn keys_of(it: impl Iterator<Item = Data<'static, 'static>>) -> Vec<Vec<u8>> { it.map(|d| d.key().to_vec()).collect() }

    fn compare(b: &Bucket, m: &Model, probes: &[Vec<u8>], ctx: &str) -> Result<(), String> {
        // full scan
        let got: Vec<(Vec<u8>, Vec<u8>)> = b.cursor().map(|d| match d { Data::KeyValue(kv) => (kv.key().to_vec(), kv.value().to_vec()), Data::Bucket(n) => (n.name().to_vec(), vec![]) }).collect();
        let want: Vec<(Vec<u8>, Vec<u8>)> = m.iter().map(|(k, v)| (k.clone(), v.clone())).collect();
        if got != want {
            return Err(format!("{}: full cursor scan yields {} entries (last {:?}); the transaction's own view holds {} (last {:?})", ctx, got.len(),
                got.last().map(|e| String::from_utf8_lossy(&e.0).to_string()), want.len(), want.last().map(|e| String::from_utf8_lossy(&e.0).to_string())));
        }
        {
            // the pair-only view: every entry here is a key/value pair, so it must equal the scan
            let kv: Vec<(Vec<u8>, Vec<u8>)> = b.kv_pairs().map(|kv| (kv.key().to_vec(), kv.value().to_vec())).collect();
            if kv != want { return Err(format!("{}: kv_pairs() yields {} pairs, the view holds {}", ctx, kv.len(), want.len())); }
            if b.buckets().count() != 0 { return Err(format!("{}: buckets() yields entries although the bucket holds only key/value pairs", ctx)); }
        }
        for p in probes {
            // point lookup
            let g = b.get_kv(p).map(|kv| kv.value().to_vec());
            if g != m.get(p).cloned() {
                return Err(format!("{}: get({:?}) = {:?}, model {:?}", ctx, String::from_utf8_lossy(p), g.map(|v| v.len()), m.get(p).map(|v| v.len())));
            }
            // seek: reports existence; iteration afterwards yields, in order, every entry >= the key (possibly preceded by the one neighbour before it)
            let mut c = b.cursor();
            let ex = c.seek(p);
            if ex != m.contains_key(p) {
                return Err(format!("{}: seek({:?}) returned {}, key present: {}", ctx, String::from_utf8_lossy(p), ex, m.contains_key(p)));
            }
            let rest: Vec<Vec<u8>> = c.map(|d| d.key().to_vec()).collect();
            let tail: Vec<Vec<u8>> = m.range::<Vec<u8>, _>((Bound::Included(p.clone()), Bound::Unbounded)).map(|(k, _)| k.clone()).collect();
            let ok = rest == tail || (rest.len() == tail.len() + 1 && rest[1..] == tail[..] && rest[0] < *p
                && m.range::<Vec<u8>, _>((Bound::Unbounded, Bound::Excluded(p.clone()))).next_back().map(|(k, _)| k.clone()) == Some(rest[0].clone()));
            if !ok {
                return Err(format!("{}: iteration after seek({:?}) yields {} entries (first {:?}); expected the {} entries >= the key, optionally preceded by its predecessor", ctx,
                    String::from_utf8_lossy(p), rest.len(), rest.first().map(|k| String::from_utf8_lossy(k).to_string()), tail.len()));
            }
        }
        // ONE cursor seeked again and again: wherever the previous seek / iteration left it, a seek must answer and position
        // exactly like a seek on a fresh cursor (every ordered pair of probes, with 0, 1 or 3 steps of iteration in between)
        for (i, p0) in probes.iter().enumerate() {
            for (j, p1) in probes.iter().enumerate() {
                let steps = (i + 2 * j) % 3;
                let steps = if steps == 2 { 3 } else { steps };
                let mut c = b.cursor();
                let _ = c.seek(p0);
                for _ in 0..steps { let _ = c.next(); }
                let ex = c.seek(p1);
                if ex != m.contains_key(p1) {
                    return Err(format!("{}: on a cursor positioned by seek({:?}) + {} step(s), seek({:?}) returned {}, key present: {}", ctx,
                        String::from_utf8_lossy(p0), steps, String::from_utf8_lossy(p1), ex, m.contains_key(p1)));
                }
                let rest: Vec<Vec<u8>> = c.take(6).map(|d| d.key().to_vec()).collect();
                let tail: Vec<Vec<u8>> = m.range::<Vec<u8>, _>((Bound::Included(p1.clone()), Bound::Unbounded)).take(6).map(|(k, _)| k.clone()).collect();
                let pred = m.range::<Vec<u8>, _>((Bound::Unbounded, Bound::Excluded(p1.clone()))).next_back().map(|(k, _)| k.clone());
                let ok = rest == tail || (!rest.is_empty() && Some(rest[0].clone()) == pred && rest[1..] == tail[..tail.len().min(rest.len() - 1)] && (rest.len() == 6 || rest.len() == tail.len() + 1));
                if !ok {
                    return Err(format!("{}: on a cursor positioned by seek({:?}) + {} step(s), iteration after seek({:?}) starts with {:?}; expected the entries >= the key {:?}, optionally preceded by its predecessor", ctx,
                        String::from_utf8_lossy(p0), steps, String::from_utf8_lossy(p1), rest.iter().map(|k| String::from_utf8_lossy(k).to_string()).collect::<Vec<_>>(),
                        tail.iter().map(|k| String::from_utf8_lossy(k).to_string()).collect::<Vec<_>>()));
                }
            }
        }
        // ranges: every kind of bound over pairs of probes
        for (i, lo) in probes.iter().enumerate() {
            for hi in probes.iter().skip(i) {
                let (lo_s, hi_s) = (lo.as_slice(), hi.as_slice());
                macro_rules! chk { ($r:expr, $lb:expr, $ub:expr, $name:expr) => {{
                    let got: Vec<Vec<u8>> = b.range($r).map(|d| d.key().to_vec()).collect();
                    let want: Vec<Vec<u8>> = m.range::<Vec<u8>, _>(($lb, $ub)).map(|(k, _)| k.clone()).collect();
                    if got != want {
                        return Err(format!("{}: range {} with lo={:?} hi={:?} yields {} entries (first {:?}, last {:?}); expected {} (first {:?}, last {:?})", ctx, $name,
                            String::from_utf8_lossy(lo), String::from_utf8_lossy(hi), got.len(), got.first().map(|k| String::from_utf8_lossy(k).to_string()), got.last().map(|k| String::from_utf8_lossy(k).to_string()),
                            want.len(), want.first().map(|k| String::from_utf8_lossy(k).to_string()), want.last().map(|k| String::from_utf8_lossy(k).to_string())));
                    }
                }}; }
                chk!(lo_s..hi_s, Bound::Included(lo.clone()), Bound::Excluded(hi.clone()), "lo..hi");
                chk!(lo_s..=hi_s, Bound::Included(lo.clone()), Bound::Included(hi.clone()), "lo..=hi");
                chk!(lo_s.., Bound::Included(lo.clone()), Bound::Unbounded, "lo..");
                chk!(..hi_s, Bound::Unbounded, Bound::Excluded(hi.clone()), "..hi");
                chk!(..=hi_s, Bound::Unbounded, Bound::Included(hi.clone()), "..=hi");
                if lo < hi {
                    chk!((Bound::Excluded(lo_s), Bound::Included(hi_s)), Bound::Excluded(lo.clone()), Bound::Included(hi.clone()), "(lo, hi]");
                    chk!((Bound::Excluded(lo_s), Bound::Excluded(hi_s)), Bound::Excluded(lo.clone()), Bound::Excluded(hi.clone()), "(lo, hi)");
                }
                chk!((Bound::Excluded(lo_s), Bound::Unbounded), Bound::Excluded(lo.clone()), Bound::Unbounded, "(lo, ..");
            }
        }
        let _ = keys_of(std::iter::empty());
        Ok(())
    }

    // one scenario: n keys of length klen with values of length vlen, then the scripted deletes/puts inside ONE write transaction
    fn scenario(name: &str, n: u32, klen: usize, vlen: usize, script: &[(char, u32, u32)]) -> Result<(), String> {
        let p = std::env::temp_dir().join(format!("jammdb-cex-cursor-{}-{}.db", name, std::process::id()));
        let _ = std::fs::remove_file(&p);
        let res = (|| {
            let db = OpenOptions::new().pagesize(1024).open(&p).map_err(|e| format!("{:?}", e))?;
            let mut m = Model::new();
            {
                let tx = db.tx(true).unwrap();
                let b = tx.create_bucket("b").unwrap();
                for i in 0..n { let v = vec![b'a' + (i % 26) as u8; vlen]; b.put(key(i, klen), v.clone()).unwrap(); m.insert(key(i, klen), v); }
                tx.commit().unwrap();
            }
            let shape = format!("bucket of {} keys (key length {}, value length {}, page size 1024)", n, klen, vlen);
            let mut probes: Vec<Vec<u8>> = vec![b"a".to_vec(), b"z".to_vec()];
            let step = std::cmp::max(1, n / 6);
            for i in (0..n).step_by(step as usize) { probes.push(key(i, klen)); probes.push(odd_key(i, klen)); }
            if n > 0 { probes.push(key(n - 1, klen)); }
            probes.sort(); probes.dedup();
            let tx = db.tx(true).unwrap();
            let b = tx.get_bucket("b").unwrap();
            compare(&b, &m, &probes, &format!("{}; write transaction, before any operation", shape))?;
            let mut done = String::new();
            for (op, from, to) in script {
                match op {
                    'd' => { for i in *from..*to { if m.remove(&key(i, klen)).is_some() { b.delete(key(i, klen)).map_err(|e| format!("delete failed: {:?}", e))?; } } }
                    'p' => { for i in *from..*to { let v = vec![b'N'; vlen / 2 + 1]; b.put(key(i, klen), v.clone()).map_err(|e| format!("put failed: {:?}", e))?; m.insert(key(i, klen), v); } }
                    'o' => { for i in *from..*to { let v = vec![b'O'; 8]; b.put(odd_key(i, klen), v.clone()).map_err(|e| format!("put failed: {:?}", e))?; m.insert(odd_key(i, klen), v); } }
                    _ => unreachable!(),
                }
                done.push_str(&format!(" {}[{}..{})", match op { 'd' => "delete keys", 'p' => "put keys", _ => "put in-between keys" }, from, to));
                for i in *from..*to { probes.push(key(i, klen)); }
                probes.sort(); probes.dedup();
                if probes.len() > 16 { let st = probes.len() / 16 + 1; probes = probes.iter().cloned().step_by(st).collect(); }
                compare(&b, &m, &probes, &format!("{}; inside ONE write transaction after:{}", shape, done))?;
            }
            tx.commit().map_err(|e| format!("commit failed: {:?}", e))?;
            db.check().map_err(|e| format!("{}; after committing:{}: check() fails: {:?}", shape, done, e))?;
            {
                let tx = db.tx(false).unwrap();
                let b = tx.get_bucket("b").unwrap();
                compare(&b, &m, &probes, &format!("{}; read transaction after committing:{}", shape, done))?;
            }
            // a second write transaction on the committed result
            {
                let tx = db.tx(true).unwrap();
                let b = tx.get_bucket("b").unwrap();
                for i in 0..3u32 { let v = vec![b'S'; 30]; b.put(odd_key(i * 7, klen), v.clone()).map_err(|e| format!("put failed: {:?}", e))?; m.insert(odd_key(i * 7, klen), v); }
                compare(&b, &m, &probes, &format!("{}; second write transaction (3 puts) after committing:{}", shape, done))?;
                tx.commit().map_err(|e| format!("second commit failed: {:?}", e))?;
            }
            db.check().map_err(|e| format!("{}; after committing:{} and 3 more puts: check() fails: {:?}", shape, done, e))?;
            let tx = db.tx(false).unwrap();
            let b = tx.get_bucket("b").unwrap();
            compare(&b, &m, &probes, &format!("{}; read transaction after committing:{} and 3 more puts", shape, done))?;
            Ok(())
        })();
        let _ = std::fs::remove_file(&p);
        res
    }

    #[test]
    fn cex_cursor_model() {
        // (name, keys, key length, value length, script)
        let scripts: Vec<(&str, u32, usize, usize, Vec<(char, u32, u32)>)> = vec![
            ("leaf", 6, 6, 20, vec![('d', 2, 4), ('o', 0, 3), ('d', 0, 6), ('p', 1, 3)]),
            ("two-mid", 40, 6, 400, vec![('d', 10, 14)]),
            ("two-first", 40, 6, 400, vec![('d', 0, 4), ('d', 4, 5)]),
            ("two-last", 40, 6, 400, vec![('d', 36, 40)]),
            ("two-one-left", 40, 6, 400, vec![('d', 10, 13), ('d', 14, 17)]),
            ("two-many", 40, 6, 400, vec![('d', 6, 30), ('p', 12, 14), ('o', 20, 22)]),
            ("two-all", 24, 6, 400, vec![('d', 0, 24), ('p', 5, 7)]),
            ("two-mixed", 60, 6, 150, vec![('o', 10, 20), ('d', 0, 9), ('d', 30, 45), ('p', 33, 36), ('d', 55, 60)]),
            ("two-promote-untouched", 8, 6, 200, vec![('d', 0, 6)]),
            ("two-one-of-two-a", 4, 6, 200, vec![('d', 0, 2)]),
            ("two-one-of-two-b", 4, 6, 200, vec![('d', 2, 4)]),
            ("two-promote-first", 8, 6, 200, vec![('d', 2, 8)]),
            ("three-mid", 120, 200, 100, vec![('d', 30, 40), ('d', 40, 44)]),
            ("three-span", 120, 200, 100, vec![('d', 10, 100), ('o', 50, 52)]),
            ("three-first-last", 120, 200, 100, vec![('d', 0, 9), ('d', 111, 120), ('p', 3, 4)]),
            ("three-all", 120, 200, 100, vec![('d', 0, 120)]),
            ("three-all-reput", 120, 200, 100, vec![('d', 0, 120), ('p', 40, 44)]),
            ("three-left-subtree", 120, 200, 100, vec![('d', 0, 60)]),
            ("three-right-subtree", 120, 200, 100, vec![('d', 60, 120)]),
            ("three-keep-one", 120, 200, 100, vec![('d', 0, 59), ('d', 60, 120)]),
            ("three-stripes", 120, 200, 100, vec![('d', 4, 20), ('d', 24, 52), ('d', 56, 90), ('d', 94, 118)]),
        ];
        for (name, n, klen, vlen, script) in scripts {
            let r = std::panic::catch_unwind(|| scenario(name, n, klen, vlen, &script));
            match r {
                Ok(Ok(())) => {}
                Ok(Err(e)) => { println!("CEX Cursor/Range (C07/C08): {}", e); panic!("cursor model mismatch"); }
                Err(_) => { println!("CEX Cursor/Range (C07/C08): scenario {} ({} keys, key length {}, value length {}, script {:?}) panicked", name, n, klen, vlen, script); panic!("cursor panic"); }
            }
        }
    }
}
