//@append src/meta.rs
//@covers Meta_hash_self Meta_valid Meta_from_old OldMeta_bytes
// Bounded search for a failing input of the REAL header checksum code: an independent FNV-1a over the pinned
// 60 big-endian bytes, on a grid of field values.
#[cfg(test)]
mod verif_cex_meta {
    use super::*;
    fn fnv1a(bytes: &[u8]) -> u64 {
        let mut h: u64 = 0xcbf29ce484222325;
        for b in bytes { h ^= *b as u64; h = h.wrapping_mul(0x100000001b3); }
        h
    }
    fn pinned(m: &Meta) -> Vec<u8> {
        let mut v = Vec::new();
        v.extend(m.meta_page.to_be_bytes()); v.extend(m.magic.to_be_bytes()); v.extend(m.version.to_be_bytes());
        v.extend(m.pagesize.to_be_bytes()); v.extend(m.root.root_page.to_be_bytes()); v.extend(m.root.next_int.to_be_bytes());
        v.extend(m.num_pages.to_be_bytes()); v.extend(m.freelist_page.to_be_bytes()); v.extend(m.tx_id.to_be_bytes());
        v
    }
    #[test]
    fn cex_meta_hash() {
        let vals = [0u64, 1, 2, 0x0102030405060708, u64::MAX];
        for a in vals { for b in vals { for c in vals {
            let m = Meta { meta_page: a as u32, magic: 0x00AB_CDEF, version: 1, pagesize: 4096u64.wrapping_add(b), root: BucketMeta { root_page: b, next_int: c },
                           num_pages: a ^ c, freelist_page: b ^ 7, tx_id: c, hash: 0 };
            let want = fnv1a(&pinned(&m));
            let mut m2 = m.clone(); m2.hash = want;
            if m.hash_self() != want || !m2.valid() || m.valid() != (want == 0) {
                println!("CEX Meta::hash_self/valid: {:?} -> hash_self {:#x}; FNV-1a of the pinned 60 bytes is {:#x}", m, m.hash_self(), want);
                panic!("contract of Meta::hash_self violated");
            }
        }}}
    }
}
