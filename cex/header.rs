//@append src/db.rs
//@covers DBInner_open DBInner_meta OpenOptions_open Page_meta Page_old_meta Meta_from_old
// Bounded, executable version of C12 on the REAL crate: files with 0..3 commits (so that both header slots take turns
// being the newest) get ONE header page damaged, and reopening must succeed, show exactly the state of the intact
// header, pass DB::check() and accept a further commit.
// Bound: page size 1024; per slot: every single-bit flip in the first 112 bytes of the page (page header + header
// record), every byte of that range zeroed / inverted, all 256 page-type values, the whole page zeroed, the record
// zeroed.  The result must be the state of the intact header (or the newest state when the damage does not invalidate the slot).
// Second oracle (C10 across close / reopen): files whose persisted free list spans 1, 2 and several pages are reopened
// and the in-memory free set must be exactly the persisted list; the next commit must pass DB::check().
// Finding nothing proves nothing.
#[cfg(test)]
mod verif_cex_header {
    use crate::{Data, OpenOptions, DB};
    use std::collections::BTreeMap;
    const PS: usize = 1024;

    fn contents(db: &DB) -> BTreeMap<Vec<u8>, Vec<u8>> {
        let tx = db.tx(false).unwrap();
        let mut m = BTreeMap::new();
        if let Ok(b) = tx.get_bucket("b") {
            for d in b.cursor() { if let Data::KeyValue(kv) = d { m.insert(kv.key().to_vec(), kv.value().to_vec()); } }
        }
        m
    }
    fn commit_n(db: &DB, n: u32) {
        let tx = db.tx(true).unwrap();
        {
            let b = tx.get_or_create_bucket("b").unwrap();
            for i in 0..6u32 { b.put(format!("k{}-{}", n, i), vec![n as u8; 40 + 20 * n as usize]).unwrap(); }
        }
        tx.commit().unwrap();
    }
    // the 72-byte header record occupies bytes 32..104 of the page (it starts at the page header's data field); its tx_id field sits at byte 88
    // (pinned layout, Kani unit K1).
    fn tx_id_of(img: &[u8], slot: usize) -> u64 { let o = slot * PS + 88; u64::from_le_bytes(img[o..o + 8].try_into().unwrap()) }

    #[test]
    fn cex_header_damage() {
        let dir = std::env::temp_dir();
        for commits in 0..4u32 {
            let p = dir.join(format!("jammdb-cex-header-{}-{}.db", commits, std::process::id()));
            let _ = std::fs::remove_file(&p);
            // states[k] = contents after k commits
            let mut states = Vec::new();
            {
                let db = OpenOptions::new().pagesize(PS as u64).open(&p).unwrap();
                states.push(contents(&db));
                for n in 1..=commits { commit_n(&db, n); states.push(contents(&db)); }
            }
            let img = std::fs::read(&p).unwrap();
            let _ = std::fs::remove_file(&p);
            let (t0, t1) = (tx_id_of(&img, 0), tx_id_of(&img, 1));
            for slot in 0..2usize {
                let other_tx = if slot == 0 { t1 } else { t0 };
                // the intact header is the other slot's: it shows the state after `other_tx` commits
                let newest_tx = std::cmp::max(t0, t1);
                let back = (newest_tx - other_tx) as usize;
                let want = &states[(commits as usize).saturating_sub(back)];
                let newest = &states[commits as usize];
                let mut damages: Vec<(String, Box<dyn Fn(&mut [u8])>)> = Vec::new();
                for byte in 0..112usize {
                    for bit in 0..8u8 { damages.push((format!("bit {} of byte {} flipped", bit, byte), Box::new(move |pg: &mut [u8]| pg[byte] ^= 1 << bit))); }
                    damages.push((format!("byte {} zeroed", byte), Box::new(move |pg: &mut [u8]| pg[byte] = 0)));
                    damages.push((format!("byte {} inverted", byte), Box::new(move |pg: &mut [u8]| pg[byte] = !pg[byte])));
                }
                for v in 0..=255u8 { damages.push((format!("page-type byte set to {}", v), Box::new(move |pg: &mut [u8]| pg[8] = v))); }
                damages.push(("whole page zeroed".into(), Box::new(|pg: &mut [u8]| pg.iter_mut().for_each(|b| *b = 0))));
                damages.push(("header record zeroed".into(), Box::new(|pg: &mut [u8]| pg[32..104].iter_mut().for_each(|b| *b = 0))));
                for (what, dmg) in damages {
                    let mut d = img.clone();
                    dmg(&mut d[slot * PS..(slot + 1) * PS]);
                    let unchanged_record = d[slot * PS + 32..slot * PS + 104] == img[slot * PS + 32..slot * PS + 104] && d[slot * PS + 8] == img[slot * PS + 8];
                    let ip = dir.join(format!("jammdb-cex-header-img-{}.db", std::process::id()));
                    std::fs::write(&ip, &d).unwrap();
                    let ctx = format!("file with {} commits (page size 1024; header slot 0 holds tx {}, slot 1 holds tx {}), header page {}: {}", commits, t0, t1, slot, what);
                    let r = std::panic::catch_unwind(|| {
                        // C06: opening an existing file and reading it through read-only transactions never changes the file --
                        // also when one of its header pages is damaged (no "repair" on open)
                        {
                            let db = OpenOptions::new().pagesize(PS as u64).open(&ip).map_err(|e| format!("open fails: {:?}", e))?;
                            let _ = contents(&db);
                            let _ = db.check();
                        }
                        let now = std::fs::read(&ip).unwrap();
                        if now != d {
                            let first = now.iter().zip(d.iter()).position(|(a, b)| a != b).unwrap_or(d.len().min(now.len()));
                            return Err(format!("C06: opening the file, reading it and closing it CHANGED the file ({} -> {} bytes, first difference at offset {}, page {})", d.len(), now.len(), first, first / PS));
                        }
                        let db = OpenOptions::new().pagesize(PS as u64).open(&ip).map_err(|e| format!("open fails: {:?}", e))?;
                        let got = contents(&db);
                        db.check().map_err(|e| format!("check() fails: {:?}", e))?;
                        commit_n(&db, 9);
                        Ok::<_, String>(got)
                    });
                    let _ = std::fs::remove_file(&ip);
                    match r {
                        Err(_) => { println!("CEX DBInner::open (C12): {}: reopening panics although the other header page is intact", ctx); panic!("c12"); }
                        Ok(Err(e)) if e.starts_with("C06:") => { println!("CEX DBInner::open (C06 opening never writes): {}: {}", ctx, e); panic!("c06"); }
                        Ok(Err(e)) => { println!("CEX DBInner::open (C12): {}: {} although the other header page is intact", ctx, e); panic!("c12"); }
                        Ok(Ok(got)) => {
                            // a damaged record falls back to the intact header; damage outside the record / page type changes nothing
                            // (damage that leaves the record and the page type untouched may or may not be treated as damage: both answers are fine)
                            let _ = unchanged_record;
                            let ok = got == *want || got == *newest;
                            if !ok {
                                println!("CEX DBInner::meta (C12): {}: the reopened database shows {} entries; the intact header's state has {}, the newest state {}", ctx, got.len(), want.len(), newest.len());
                                panic!("c12");
                            }
                        }
                    }
                }
            }
        }
    }

    #[test]
    fn cex_reopen_loads_whole_free_list() {
        use crate::page::Page;
        let dir = std::env::temp_dir();
        for &(nkeys, vlen) in &[(0u32, 0usize), (30, 700), (200, 700), (700, 700), (300, 3000)] {
            let p = dir.join(format!("jammdb-cex-reopen-{}-{}-{}.db", nkeys, vlen, std::process::id()));
            let _ = std::fs::remove_file(&p);
            {
                let db = OpenOptions::new().pagesize(PS as u64).open(&p).unwrap();
                let tx = db.tx(true).unwrap();
                { let b = tx.get_or_create_bucket("b").unwrap(); for i in 0..nkeys { b.put(format!("key-{:05}", i), vec![i as u8; vlen]).unwrap(); } }
                tx.commit().unwrap();
                let tx = db.tx(true).unwrap();
                { let b = tx.get_bucket("b").unwrap(); for i in 0..nkeys { b.delete(format!("key-{:05}", i)).unwrap(); } }
                tx.commit().unwrap();
                commit_n(&db, 1);
                commit_n(&db, 2);
            }
            let ctx = format!("file built with page size 1024 by: put {} keys with {}-byte values, commit, delete them all, commit, two small commits, close", nkeys, vlen);
            let r = std::panic::catch_unwind(|| {
                let db = OpenOptions::new().pagesize(PS as u64).open(&p).map_err(|e| format!("reopen fails: {:?}", e))?;
                let persisted: Vec<u64> = {
                    let meta = db.inner.meta().map_err(|e| format!("{:?}", e))?;
                    let data = db.inner.data.lock().unwrap();
                    Page::from_buf(&data, meta.freelist_page, PS as u64).freelist().to_vec()
                };
                let loaded = db.inner.freelist.lock().unwrap().pages();
                if loaded != persisted {
                    return Err(format!("the free-list page lists {} free pages, after reopening the database knows {} of them (first forgotten: {:?})",
                        persisted.len(), loaded.len(), persisted.iter().find(|x| !loaded.contains(x))));
                }
                commit_n(&db, 3);
                db.check().map_err(|e| format!("check() fails after the first commit that follows the reopen: {:?}", e))?;
                Ok::<_, String>(())
            });
            let _ = std::fs::remove_file(&p);
            match r {
                Err(_) => { println!("CEX DBInner::open (C10): {}: reopening or the next commit panics", ctx); panic!("c10"); }
                Ok(Err(e)) => { println!("CEX DBInner::open (C10): {}: {}", ctx, e); panic!("c10"); }
                Ok(Ok(())) => {}
            }
        }
    }

    // ---- C15: opening with a page size different from the file's is refused WITHOUT modifying the file, whatever the two
    // sizes and however small the file is (also files shorter than four pages of the requested size)
    #[test]
    fn cex_open_with_another_page_size_is_refused() {
        let dir = std::env::temp_dir();
        let sizes = [1024u64, 2048, 4096, 5000, 16384];
        for &a in &sizes {
            for &np in &[4usize, 32] {
                let p = dir.join(format!("jammdb-cex-pagesize-{}-{}-{}.db", a, np, std::process::id()));
                let _ = std::fs::remove_file(&p);
                {
                    let db = OpenOptions::new().pagesize(a).num_pages(np).open(&p).unwrap();
                    let tx = db.tx(true).unwrap();
                    let b = tx.create_bucket("b").unwrap();
                    b.put("k1", "v1").unwrap();
                    b.create_bucket("nested").unwrap().put("x", "y").unwrap();
                    tx.commit().unwrap();
                }
                let bytes = std::fs::read(&p).unwrap();
                for &b in &sizes {
                    if b == a { continue; }
                    let what = format!("history: file created with page size {} and {} initial pages ({} bytes, one commit), then opened with page size {}", a, np, bytes.len(), b);
                    let r = std::panic::catch_unwind(|| OpenOptions::new().pagesize(b).open(&p).map(|_| ()));
                    if let Ok(Ok(())) = r { println!("CEX OpenOptions::open (C15 mismatching page size refused): {}: open succeeded", what); panic!("c15-open"); }
                    let now = std::fs::read(&p).unwrap();
                    if now != bytes { println!("CEX OpenOptions::open (C15 refusal leaves the file alone): {}: the file was modified ({} -> {} bytes, first difference at offset {:?})", what, bytes.len(), now.len(), bytes.iter().zip(now.iter()).position(|(x, y)| x != y)); panic!("c15-modified"); }
                }
                let db = OpenOptions::new().pagesize(a).open(&p).unwrap();
                let tx = db.tx(false).unwrap();
                assert_eq!(tx.get_bucket("b").unwrap().get_kv("k1").unwrap().value(), b"v1");
                drop(tx); drop(db);
                let _ = std::fs::remove_file(&p);
            }
        }
    }
    // ---- C12 behind a BIG commit: the newest header is damaged right after a commit that freed a long run of pages at the END of
    // the file (a bulk bucket that was appended last is deleted).  The fallback must show the previous commit COMPLETE: every page
    // the previous header reaches is as it was (the commit may only have written to pages that were free for it), check() passes
    #[test]
    fn cex_fallback_behind_a_bulk_delete() {
        let dir = std::env::temp_dir();
        let p = dir.join(format!("jammdb-cex-header-bulk-{}.db", std::process::id()));
        let _ = std::fs::remove_file(&p);
        let db = OpenOptions::new().pagesize(PS as u64).open(&p).unwrap();
        commit_n(&db, 1);
        const NBIG: u32 = 300;      // the same size every round: the pages one round frees are the pages the next round takes, so the free set holds no long run when the (multi-page) free list is written
        for round in 0..4u32 {
            { let tx = db.tx(true).unwrap(); { let b = tx.create_bucket("big").unwrap(); for i in 0..NBIG { b.put(format!("blob{:04}", i), vec![round as u8; 700]).unwrap(); } } tx.commit().unwrap(); }
            commit_n(&db, 2 + round);
            let prev = contents(&db);
            let prev_has_big = true;
            { let tx = db.tx(true).unwrap(); tx.delete_bucket("big").unwrap(); tx.commit().unwrap(); }
            let img = std::fs::read(&p).unwrap();
            let (t0, t1) = (tx_id_of(&img, 0), tx_id_of(&img, 1));
            let newest = if t0 > t1 { 0usize } else { 1 };
            let mut d = img.clone();
            d[newest * PS + 32..newest * PS + 104].iter_mut().for_each(|b| *b = 0);
            let ip = dir.join(format!("jammdb-cex-header-bulk-img-{}.db", std::process::id()));
            std::fs::write(&ip, &d).unwrap();
            let ctx = format!("history (page size 1024): a small bucket, then round {}: bucket `big` with {} values of 700 bytes committed, a small commit, `big` deleted and committed (a long run of pages at the end of the file is freed); the header record of that last commit is zeroed", round, NBIG);
            let r = std::panic::catch_unwind(|| {
                let d2 = OpenOptions::new().pagesize(PS as u64).open(&ip).map_err(|e| format!("open fails: {:?}", e))?;
                let got = contents(&d2);
                let big = { let tx = d2.tx(false).unwrap(); let n = tx.get_bucket("big").map(|b| b.cursor().count()).unwrap_or(usize::MAX); n };
                d2.check().map_err(|e| format!("the previous commit is shown ({} entries in `b`) but check() fails: {:?}", got.len(), e))?;
                Ok::<_, String>((got, big))
            });
            let _ = std::fs::remove_file(&ip);
            match r {
                Err(_) => { println!("CEX DBInner::open (C12): {}: reopening panics although the other header page is intact", ctx); panic!("c12-bulk"); }
                Ok(Err(e)) => { println!("CEX DBInner::open (C12): {}: {}", ctx, e); panic!("c12-bulk"); }
                Ok(Ok((got, big))) => {
                    if got != prev || (prev_has_big && big != NBIG as usize) {
                        println!("CEX DBInner::meta (C12): {}: the fallback shows {} entries in `b` (previous commit: {}) and {} entries in `big` (previous commit: {})", ctx, got.len(), prev.len(), big, NBIG);
                        panic!("c12-bulk");
                    }
                }
            }
        }
        drop(db);
        let _ = std::fs::remove_file(&p);
    }
}
