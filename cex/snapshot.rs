//@append src/tx.rs
//@covers Tx_new TxInner_drop
// Bounded, executable version of C03 on the REAL crate (single thread): read-only transactions are opened and closed
// between writer commits that free and reuse pages; after EVERY step every open reader is re-read in full (ordered scan
// of every bucket and point lookups) and must still show exactly what it showed when it was opened.
// Bound: 30 seeded histories x 40 steps, up to 5 readers open at once (several on the same snapshot), page size 1024,
// file pre-sized so that no commit has to grow it while a reader is open (that would block on the map lock).
// Finding nothing proves nothing.
#[cfg(test)]
mod verif_cex_snapshot {
    use crate::{Data, OpenOptions, Tx, DB};
    use std::collections::BTreeMap;
    type Snap = BTreeMap<Vec<u8>, BTreeMap<Vec<u8>, Vec<u8>>>;

    struct Rng(u64);
    impl Rng {
        fn next(&mut self) -> u64 { self.0 = self.0.wrapping_mul(6364136223846793005).wrapping_add(1442695040888963407); self.0 >> 33 }
        fn below(&mut self, n: u64) -> u64 { self.next() % n }
    }
    fn read_all(tx: &Tx) -> Snap {
        let mut s = Snap::new();
        let names: Vec<Vec<u8>> = tx.buckets().map(|(n, _)| n.name().to_vec()).collect();
        for n in names {
            let b = tx.get_bucket(n.clone()).unwrap();
            let mut m = BTreeMap::new();
            for d in b.cursor() { if let Data::KeyValue(kv) = d { m.insert(kv.key().to_vec(), kv.value().to_vec()); } }
            // point lookups must agree with the scan
            for (k, v) in &m { assert_eq!(b.get_kv(k).map(|kv| kv.value().to_vec()).as_ref(), Some(v)); }
            s.insert(n, m);
        }
        s
    }
    // one write transaction; with probability 1/3 a reader is opened WHILE the writer is still open (it must see, and keep
    // seeing, the state committed before this writer)
    fn write_step<'d>(db: &'d DB, r: &mut Rng, model: &mut Snap, step: u32) -> Option<(Tx<'d>, Snap)> {
        let tx = db.tx(true).unwrap();
        let mut mid: Option<(Tx<'d>, Snap)> = None;
        {
            let bn = format!("b{}", r.below(3)).into_bytes();
            let b = tx.get_or_create_bucket(bn.clone()).unwrap();
            let m = model.entry(bn).or_default();
            let kind = r.below(4);
            for _ in 0..(3 + r.below(25)) {
                let k = format!("key-{:04}", r.below(60)).into_bytes();
                if kind == 3 && m.contains_key(&k) { b.delete(k.clone()).unwrap(); m.remove(&k); }
                else { let v = vec![b'a' + (step % 26) as u8; [8usize, 120, 700, 2500][r.below(4) as usize]]; b.put(k.clone(), v.clone()).unwrap(); m.insert(k, v); }
            }
        }
        if r.below(3) == 0 { let t = db.tx(false).unwrap(); let s = read_all(&t); mid = Some((t, s)); }
        if r.below(6) == 0 { drop(tx); *model = { let t = db.tx(false).unwrap(); read_all(&t) }; } else { tx.commit().unwrap(); }
        mid
    }

    fn run_seed(seed: u64) -> Result<(), String> {
        let p = std::env::temp_dir().join(format!("jammdb-cex-snapshot-{}-{}.db", seed, std::process::id()));
        let _ = std::fs::remove_file(&p);
        let res = (|| {
            let db = OpenOptions::new().pagesize(1024).num_pages(8192).open(&p).map_err(|e| format!("open: {:?}", e))?;
            let mut r = Rng(seed.wrapping_mul(0x9E3779B97F4A7C15) ^ 0xA24BAED4963EE407);
            let mut model = Snap::new();
            let mut readers: Vec<(u32, Tx, Snap)> = Vec::new();
            let mut log: Vec<String> = Vec::new();
            for step in 0..40u32 {
                match r.below(10) {
                    0 | 1 | 2 if readers.len() < 5 => { let t = db.tx(false).unwrap(); let s = read_all(&t); if s != model { return Err(format!("seed {} step {}: a reader opened after the commits sees a state that is not the newest committed one; steps: {}", seed, step, log.join(" "))); } readers.push((step, t, s)); log.push(format!("OPEN#{}", step)); }
                    3 | 4 if !readers.is_empty() => { let i = r.below(readers.len() as u64) as usize; let (id, t, _) = readers.remove(i); drop(t); log.push(format!("CLOSE#{}", id)); }
                    _ => {
                        let committed_before = { let t = db.tx(false).unwrap(); read_all(&t) };
                        let mid = write_step(&db, &mut r, &mut model, step);
                        log.push("WRITE".into());
                        if let Some((t, s)) = mid {
                            if s != committed_before { return Err(format!("seed {} step {}: a reader opened while a writer was open does not see the state committed before that writer; steps: {}", seed, step, log.join(" "))); }
                            if readers.len() < 5 { readers.push((step, t, s)); log.push(format!("OPENED-DURING-WRITE#{}", step)); }
                        }
                    }
                }
                for (id, t, s) in &readers {
                    let now = std::panic::catch_unwind(std::panic::AssertUnwindSafe(|| read_all(t)));
                    match now {
                        Ok(n) if n == *s => {}
                        Ok(n) => { return Err(format!("seed {}: the reader opened at step {} no longer sees its snapshot after step {} ({} buckets / {} entries then, {} / {} now); steps: {}", seed, id, step,
                            s.len(), s.values().map(|m| m.len()).sum::<usize>(), n.len(), n.values().map(|m| m.len()).sum::<usize>(), log.join(" "))); }
                        Err(_) => { return Err(format!("seed {}: re-reading the reader opened at step {} panics after step {} (its pages were overwritten); steps: {}", seed, id, step, log.join(" "))); }
                    }
                }
            }
            Ok(())
        })();
        let _ = std::fs::remove_file(&p);
        res
    }

    #[test]
    fn cex_snapshot_model() {
        let n: u64 = std::env::var("VERIF_CEX_SEEDS").ok().and_then(|s| s.parse().ok()).unwrap_or(30);
        for seed in 0..n {
            match std::panic::catch_unwind(|| run_seed(seed)) {
                Ok(Ok(())) => {}
                Ok(Err(e)) => { println!("CEX snapshot (C03): {}", e); panic!("snapshot"); }
                Err(_) => { println!("CEX snapshot (C03): seed {} panicked", seed); panic!("snapshot panic"); }
            }
        }
    }
}
