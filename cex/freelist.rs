//@append src/freelist.rs
//@covers Freelist_allocate Freelist_release Freelist_free Freelist_pages Freelist_init Freelist_size TxFreelist_free
// Bounded search for a failing input of the REAL free-list code (used only after a Verus obligation failed, to
// attach a concrete input to the VIOLATION).  Executable versions of the contract clauses of F1-F5 over all
// free sets drawn from {2..11}, run lengths 1..4 and small pending maps.
#[cfg(test)]
mod verif_cex_freelist {
    use super::*;

    fn mk(free: u32, pend: &[(u64, Vec<u64>)]) -> Freelist {
        let mut f = Freelist::new();
        let ids: Vec<u64> = (0..10).filter(|b| free & (1 << b) != 0).map(|b| b as u64 + 2).collect();
        f.init(&ids);
        for (tx, ps) in pend {
            for p in ps {
                f.free(*tx, *p);
            }
        }
        f
    }
    fn run_in(s: &BTreeSet<u64>, q: u64, n: u64) -> bool {
        (q..q + n).all(|i| s.contains(&i))
    }

    #[test]
    fn cex_freelist_allocate() {
        for free in 0u32..1024 {
            for n in 1usize..5 {
                let mut f = mk(free, &[(3, vec![40, 41])]);
                let before = f.free_pages.clone();
                let pend_before = f.pending_pages.clone();
                let r = f.allocate(n);
                let lowest = (2u64..12).find(|q| run_in(&before, *q, n as u64));
                let ok = match r {
                    Some(p) => {
                        run_in(&before, p, n as u64) && p > 1
                            && f.free_pages == before.iter().cloned().filter(|x| !(p <= *x && *x < p + n as u64)).collect()
                    }
                    None => lowest.is_none() && f.free_pages == before,
                } && f.pending_pages == pend_before;
                if !ok {
                    println!("CEX Freelist::allocate: free set {:?}, num_pages {} -> returned {:?}, free set afterwards {:?}; expected some free run of that length removed exactly, or None only when there is none (lowest run: {:?})", before, n, r, f.free_pages, lowest);
                    panic!("contract of Freelist::allocate violated");
                }
            }
        }
    }

    #[test]
    fn cex_freelist_release() {
        let pend = vec![(2u64, vec![20u64, 21]), (4, vec![22]), (5, vec![23, 24]), (9, vec![25])];
        for free in [0u32, 5, 1023] {
            for bound in 0u64..12 {
                let mut f = mk(free, &pend);
                let before_free = f.free_pages.clone();
                f.release(bound);
                let mut want_free = before_free.clone();
                let mut want_pend = BTreeMap::new();
                for (tx, ps) in &pend {
                    if *tx < bound { want_free.extend(ps.iter().cloned()); } else { want_pend.insert(*tx, ps.clone()); }
                }
                if f.free_pages != want_free || f.pending_pages != want_pend {
                    println!("CEX Freelist::release: pending {:?}, free {:?}, release({}) -> free {:?} pending {:?}; expected free {:?} pending {:?}", pend, before_free, bound, f.free_pages, f.pending_pages, want_free, want_pend);
                    panic!("contract of Freelist::release violated");
                }
            }
        }
    }

    #[test]
    fn cex_freelist_pages() {
        let pend = vec![(7u64, vec![30u64, 12]), (3, vec![31])];
        for free in [0u32, 1, 6, 1023] {
            let f = mk(free, &pend);
            let got = f.pages();
            let mut want: Vec<u64> = f.free_pages.iter().cloned().collect();
            want.extend([30u64, 12, 31]);
            want.sort_unstable();
            if got != want || f.size() != 40 + 8 * want.len() as u64 {
                println!("CEX Freelist::pages/size: free {:?} pending {:?} -> pages {:?} size {}; expected {:?} / {}", f.free_pages, pend, got, f.size(), want, 40 + 8 * want.len());
                panic!("contract of Freelist::pages violated");
            }
        }
    }

    #[test]
    fn cex_freelist_free() {
        let mut f = mk(3, &[(4, vec![20])]);
        f.free(4, 21);
        f.free(6, 22);
        let want: BTreeMap<u64, Vec<u64>> = [(4u64, vec![20u64, 21]), (6, vec![22])].into_iter().collect();
        if f.pending_pages != want || f.free_pages.len() != 2 {
            println!("CEX Freelist::free: after free(4,21), free(6,22) on pending {{4:[20]}} -> {:?}; expected {:?}", f.pending_pages, want);
            panic!("contract of Freelist::free violated");
        }
    }
}
