//@append src/db.rs
//@covers DBInner_open OpenOptions_open
// Bounded, executable version of the part of C13 that lives in this code base: while ANY handle of an open database is
// alive (the first one, clones, handles with transactions) the exclusive advisory lock is held, and it is released when the
// last handle goes.  The lock is probed from a SECOND PROCESS (python3: flock(LOCK_EX | LOCK_NB) on the same file).
// Bound: one file, the scripted handle histories below.  Finding nothing proves nothing.
#[cfg(test)]
mod verif_cex_lock {
    use crate::{OpenOptions, DB};
    // Some(true): another process could take the lock (nobody holds it); Some(false): it is held; None: no probe available
    fn lock_is_free(p: &std::path::Path) -> Option<bool> {
        let out = std::process::Command::new("python3").arg("-c")
            .arg("import fcntl,sys\nf=open(sys.argv[1],'rb')\ntry:\n    fcntl.flock(f, fcntl.LOCK_EX | fcntl.LOCK_NB)\n    print('FREE')\nexcept OSError:\n    print('HELD')\n")
            .arg(p).output().ok()?;
        let s = String::from_utf8_lossy(&out.stdout);
        if s.contains("FREE") { Some(true) } else if s.contains("HELD") { Some(false) } else { None }
    }
    #[test]
    fn cex_lock_held_while_any_handle_lives() {
        let p = std::env::temp_dir().join(format!("jammdb-cex-lock-{}.db", std::process::id()));
        let _ = std::fs::remove_file(&p);
        let db: DB = OpenOptions::new().pagesize(1024).open(&p).unwrap();
        let mut steps: Vec<&str> = vec!["open"];
        macro_rules! held { ($what:expr) => {{
            steps.push($what);
            match lock_is_free(&p) {
                None => { println!("cex lock: no second-process probe available (python3), skipped"); let _ = std::fs::remove_file(&p); return; }
                Some(true) => { println!("CEX DBInner::open (C13 lock held until the last handle goes): history: {}: a second process can take the exclusive lock although a handle of the database is still alive", steps.join(", ")); panic!("c13-lock-free"); }
                Some(false) => {}
            }
        }}; }
        held!("probe");
        { let c = db.clone(); drop(c); }
        held!("clone the handle and drop the clone");
        { let tx = db.tx(true).unwrap(); tx.create_bucket("b").unwrap().put("k", "v").unwrap(); tx.commit().unwrap(); }
        held!("a committed write transaction");
        let c2 = db.clone();
        { let t = std::thread::spawn(move || { let tx = c2.tx(false).unwrap(); let _ = tx.get_bucket("b").unwrap().get_kv("k"); }); t.join().unwrap(); }
        held!("a clone moved to another thread, used and dropped there");
        { let tx = db.tx(true).unwrap(); drop(tx); }
        held!("a rolled-back write transaction");
        let c3 = db.clone();
        drop(db);
        held!("drop the FIRST handle while a clone is alive");
        drop(c3);
        if lock_is_free(&p) == Some(false) {
            println!("CEX DBInner::open (C13 lock released with the last handle): history: {}, drop the last handle: the lock is still held", steps.join(", "));
            panic!("c13-lock-stuck");
        }
        let _ = std::fs::remove_file(&p);
    }
    // ---- C13 for a file that does NOT EXIST yet: several processes are released at the same instant on a fresh path (this test
    // binary re-executed as workers).  A worker whose open fails or panics is tolerated (the unmodified library makes the loser of
    // the creation race fail); what must never happen is two workers INSIDE at once (each raises a witness file with create_new
    // while inside) or a committed marker missing at the end.  Bound: 12 rounds x 3 workers.  Finding nothing proves nothing.
    const ROLE: &str = "VERIF_CEX_LOCK_WORKER";
    fn now_ns() -> u128 { std::time::SystemTime::now().duration_since(std::time::UNIX_EPOCH).unwrap().as_nanos() }
    #[test]
    fn cex_lock_race_worker() {
        let id: u64 = match std::env::var(ROLE) { Ok(v) => v.parse().unwrap(), Err(_) => return };
        let path = std::path::PathBuf::from(std::env::var("VERIF_CEX_LOCK_PATH").unwrap());
        let start: u128 = std::env::var("VERIF_CEX_LOCK_START").unwrap().parse().unwrap();
        while now_ns() < start { std::hint::spin_loop(); }
        let pp = path.clone();
        let db = match std::panic::catch_unwind(move || OpenOptions::new().pagesize(1024).open(&pp)) { Ok(Ok(db)) => db, _ => { println!("\nLOCKRACE:OPENFAIL {}", id); return; } };
        let witness = path.with_extension("inside");
        let alone = std::fs::OpenOptions::new().write(true).create_new(true).open(&witness).is_ok();
        let committed = (|| { let tx = db.tx(true).ok()?; tx.get_or_create_bucket("markers").ok()?.put(id.to_be_bytes().to_vec(), "x").ok()?; tx.commit().ok() })().is_some();
        std::thread::sleep(std::time::Duration::from_millis(15));
        if alone { let _ = std::fs::remove_file(&witness); }
        drop(db);
        println!("\nLOCKRACE:INSIDE {} {} {}", id, alone, committed);
    }
    #[test]
    fn cex_lock_creation_race() {
        if std::env::var(ROLE).is_ok() { return; }
        let exe = std::env::current_exe().unwrap();
        for round in 0..12u64 {
            let path = std::env::temp_dir().join(format!("jammdb-cex-lockrace-{}-{}.db", std::process::id(), round));
            let _ = std::fs::remove_file(&path); let _ = std::fs::remove_file(path.with_extension("inside"));
            let start = now_ns() + 150_000_000;
            let kids: Vec<_> = (0..3u64).map(|w| std::process::Command::new(&exe)
                .args(["cex_lock_race_worker", "--nocapture", "--test-threads=1"])
                .env(ROLE, (round * 10 + w).to_string()).env("VERIF_CEX_LOCK_PATH", &path)
                .env("VERIF_CEX_LOCK_START", (start + if round % 2 == 1 && w == 2 { 5_000_000 } else { 0 }).to_string())
                .stdout(std::process::Stdio::piped()).stderr(std::process::Stdio::null()).spawn()).collect();
            let mut inside: Vec<(u64, bool, bool)> = Vec::new();
            for k in kids {
                let out = match k.and_then(|c| c.wait_with_output()) { Ok(o) => String::from_utf8_lossy(&o.stdout).to_string(), Err(_) => { println!("cex lock race: cannot re-execute the test binary, skipped"); return; } };
                for l in out.lines() { if let Some(r) = l.strip_prefix("LOCKRACE:INSIDE ") { let f: Vec<&str> = r.split_whitespace().collect(); inside.push((f[0].parse().unwrap(), f[1] == "true", f[2] == "true")); } }
            }
            let what = format!("history: round {}: three processes open the same NOT YET EXISTING file at the same instant (page size 1024); {} of them got in", round, inside.len());
            if let Some((id, _, _)) = inside.iter().find(|(_, alone, _)| !*alone) {
                println!("CEX OpenOptions::open (C13 two openers are never inside at the same time): {}: worker {} found another worker still inside the database (its witness file was raised)", what, id);
                panic!("c13-race-inside");
            }
            // every marker a worker committed while it held the database is in the file
            let pp = path.clone();
            let seen: Option<Vec<u64>> = std::panic::catch_unwind(move || { let db = OpenOptions::new().pagesize(1024).open(&pp).ok()?; let tx = db.tx(false).ok()?; let b = tx.get_bucket("markers").ok()?; Some(b.kv_pairs().map(|kv| u64::from_be_bytes(kv.key().try_into().unwrap())).collect()) }).ok().flatten();
            let want: Vec<u64> = inside.iter().filter(|(_, _, c)| *c).map(|(id, _, _)| *id).collect();
            if !want.is_empty() {
                let seen = seen.unwrap_or_default();
                if let Some(miss) = want.iter().find(|id| !seen.contains(id)) {
                    println!("CEX OpenOptions::open (C13 a later opener sees everything committed before): {}: the marker worker {} committed while it held the database is not in the file afterwards (markers found: {:?})", what, miss, seen);
                    panic!("c13-race-lost");
                }
            }
            let _ = std::fs::remove_file(&path); let _ = std::fs::remove_file(path.with_extension("inside"));
        }
    }
}
