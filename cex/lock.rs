//@append src/db.rs
//@covers DBInner_open OpenOptions_open
// Bounded, executable version of the part of C13 that lives in this code base: while ANY handle of an open database is
// alive (the first one, clones, handles with transactions) the exclusive advisory lock is held, and it is released when the
// last handle goes.  The lock is probed from a SECOND PROCESS (python3: flock(LOCK_EX | LOCK_NB) on the same file).
// Bound: one file, the scripted handle histories below.  Finding nothing proves nothing.
#[cfg(test)]
mod verif_cex_lock {
    use crate::{OpenOptions, DB};
    // Some(true): another process could take the lock (nobody holds it); Some(false): it is held; None: no probe available
    fn lock_is_free(p: &std::path::Path) -> Option<bool> {
        let out = std::process::Command::new("python3").arg("-c")
            .arg("import fcntl,sys\nf=open(sys.argv[1],'rb')\ntry:\n    fcntl.flock(f, fcntl.LOCK_EX | fcntl.LOCK_NB)\n    print('FREE')\nexcept OSError:\n    print('HELD')\n")
            .arg(p).output().ok()?;
        let s = String::from_utf8_lossy(&out.stdout);
        if s.contains("FREE") { Some(true) } else if s.contains("HELD") { Some(false) } else { None }
    }
    #[test]
    fn cex_lock_held_while_any_handle_lives() {
        let p = std::env::temp_dir().join(format!("jammdb-cex-lock-{}.db", std::process::id()));
        let _ = std::fs::remove_file(&p);
        let db: DB = OpenOptions::new().pagesize(1024).open(&p).unwrap();
        let mut steps: Vec<&str> = vec!["open"];
        macro_rules! held { ($what:expr) => {{
            steps.push($what);
            match lock_is_free(&p) {
                None => { println!("cex lock: no second-process probe available (python3), skipped"); let _ = std::fs::remove_file(&p); return; }
                Some(true) => { println!("CEX DBInner::open (C13 lock held until the last handle goes): history: {}: a second process can take the exclusive lock although a handle of the database is still alive", steps.join(", ")); panic!("c13-lock-free"); }
                Some(false) => {}
            }
        }}; }
        held!("probe");
        { let c = db.clone(); drop(c); }
        held!("clone the handle and drop the clone");
        { let tx = db.tx(true).unwrap(); tx.create_bucket("b").unwrap().put("k", "v").unwrap(); tx.commit().unwrap(); }
        held!("a committed write transaction");
        let c2 = db.clone();
        { let t = std::thread::spawn(move || { let tx = c2.tx(false).unwrap(); let _ = tx.get_bucket("b").unwrap().get_kv("k"); }); t.join().unwrap(); }
        held!("a clone moved to another thread, used and dropped there");
        { let tx = db.tx(true).unwrap(); drop(tx); }
        held!("a rolled-back write transaction");
        let c3 = db.clone();
        drop(db);
        held!("drop the FIRST handle while a clone is alive");
        drop(c3);
        if lock_is_free(&p) == Some(false) {
            println!("CEX DBInner::open (C13 lock released with the last handle): history: {}, drop the last handle: the lock is still held", steps.join(", "));
            panic!("c13-lock-stuck");
        }
        let _ = std::fs::remove_file(&p);
    }
}
