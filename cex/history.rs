//@append src/bucket.rs
//@covers OpenOptions_open init_file InnerBucket_get InnerBucket_delete InnerBucket_put_leaf InnerBucket_delete_bucket InnerBucket_bucket_getter Bucket_put Bucket_delete Bucket_create_bucket Bucket_get_or_create_bucket Bucket_delete_bucket
// Bounded, executable version of C01/C05/C06 for the bucket layer on the REAL crate: seeded histories of write
// transactions (put / delete / create / get / get-or-create / delete bucket at nesting depth <= 3, commit, rollback,
// close + reopen) against a nested ordered-map model.  Every call's value or error kind is compared, after every commit
// the whole contents (keys, values, bucket structure, per-bucket counters) are read back in a fresh transaction and
// DB::check() must pass; nothing may panic.
// Bound: 40 seeds x 12 transactions x <= 25 operations, page size 1024, key lengths {0, 1, 3, 40, 300, 1100 (longer than a page)}, value lengths
// {0, 10, 200, 900, 3000}, 12 distinct key ids per length (so that overwrites, KV/bucket name clashes and emptied
// leaves happen often).  Finding nothing proves nothing.
#[cfg(test)]
mod verif_cex_history {
    use crate::{Bucket, Data, Error, OpenOptions, Tx, DB};
    use std::collections::BTreeMap;

    #[derive(Clone, Debug, PartialEq)]
    enum M { Kv(Vec<u8>), B(MB) }
    #[derive(Clone, Debug, PartialEq, Default)]
    struct MB { items: BTreeMap<Vec<u8>, M>, next_int: u64 }

    struct Rng(u64);
    impl Rng {
        fn next(&mut self) -> u64 { self.0 = self.0.wrapping_mul(6364136223846793005).wrapping_add(1442695040888963407); self.0 >> 33 }
        fn below(&mut self, n: u64) -> u64 { self.next() % n }
    }
    fn key(r: &mut Rng) -> Vec<u8> {
        let len = [0usize, 1, 3, 40, 300, 1100][r.below(6) as usize];
        let id = r.below(12);
        let mut k = format!("{:02}", id).into_bytes();
        k.truncate(len);
        while k.len() < len { k.push(b'a' + (id as u8 % 26)); }
        k
    }
    fn value(r: &mut Rng) -> Vec<u8> {
        let len = [0usize, 10, 200, 900, 3000][r.below(5) as usize];
        vec![b'A' + r.below(26) as u8; len]
    }
    fn kind(e: &Error) -> &'static str {
        match e { Error::BucketExists => "BucketExists", Error::BucketMissing => "BucketMissing", Error::KeyValueMissing => "KeyValueMissing",
                  Error::IncompatibleValue => "IncompatibleValue", Error::ReadOnlyTx => "ReadOnlyTx", _ => "other" }
    }
    fn model_at<'m>(m: &'m mut MB, path: &[Vec<u8>]) -> &'m mut MB {
        let mut cur = m;
        for p in path { cur = match cur.items.get_mut(p) { Some(M::B(b)) => b, _ => unreachable!() }; }
        cur
    }
    fn bucket_at<'b, 'tx>(tx: &'b Tx<'tx>, path: &[Vec<u8>]) -> Bucket<'b, 'tx> {
        let mut cur = tx.get_bucket(path[0].clone()).expect("model says the bucket exists");
        for p in &path[1..] { cur = cur.get_bucket(p.clone()).expect("model says the nested bucket exists"); }
        cur
    }
    // all bucket paths of the model (non-empty paths)
    fn paths(m: &MB, prefix: &mut Vec<Vec<u8>>, out: &mut Vec<Vec<Vec<u8>>>) {
        for (k, v) in &m.items {
            if let M::B(b) = v { prefix.push(k.clone()); out.push(prefix.clone()); paths(b, prefix, out); prefix.pop(); }
        }
    }
    fn read_back(b: &Bucket, m: &MB, what: &str) -> Result<(), String> {
        let mut got: Vec<(Vec<u8>, Option<Vec<u8>>)> = Vec::new();
        for d in b.cursor() {
            match d { Data::KeyValue(kv) => got.push((kv.key().to_vec(), Some(kv.value().to_vec()))), Data::Bucket(n) => got.push((n.name().to_vec(), None)) }
        }
        let want: Vec<(Vec<u8>, Option<Vec<u8>>)> = m.items.iter().map(|(k, v)| (k.clone(), match v { M::Kv(v) => Some(v.clone()), M::B(_) => None })).collect();
        if got != want {
            let f = |v: &Vec<(Vec<u8>, Option<Vec<u8>>)>| v.iter().map(|(k, x)| format!("{}:{}", String::from_utf8_lossy(&k[..k.len().min(4)]), x.as_ref().map(|x| x.len() as i64).unwrap_or(-1))).collect::<Vec<_>>().join(" ");
            return Err(format!("{}: bucket holds [{}] (key prefix:value length, -1 = nested bucket); the reference map holds [{}]", what, f(&got), f(&want)));
        }
        if b.next_int() != m.next_int { return Err(format!("{}: next_int() = {}, reference counter {}", what, b.next_int(), m.next_int)); }
        for (k, v) in &m.items {
            if let M::B(mb) = v {
                let nb = b.get_bucket(k.clone()).map_err(|e| format!("{}: get_bucket of an existing nested bucket fails: {}", what, kind(&e)))?;
                read_back(&nb, mb, what)?;
            }
        }
        Ok(())
    }
    fn read_all(db: &DB, m: &MB, what: &str) -> Result<(), String> {
        let tx = db.tx(false).map_err(|e| format!("{}: tx(false) fails: {:?}", what, e))?;
        let names: Vec<Vec<u8>> = tx.buckets().map(|(n, _)| n.name().to_vec()).collect();
        let want: Vec<Vec<u8>> = m.items.keys().cloned().collect();
        if names != want { return Err(format!("{}: top-level buckets {:?}, reference {:?}", what, names.len(), want.len())); }
        for (k, v) in &m.items {
            if let M::B(mb) = v { read_back(&tx.get_bucket(k.clone()).map_err(|e| format!("{}: top-level bucket missing: {}", what, kind(&e)))?, mb, what)?; }
        }
        Ok(())
    }

    fn run_seed(seed: u64) -> Result<(), String> { run_seed_with(seed, 1024, 32, false) }
    // the same seeded history under given open options (C16: options change performance, not behaviour)
    // the map-populate option for run_seed_with (the oracle runs its tests on one thread)
    static POPULATE: std::sync::atomic::AtomicBool = std::sync::atomic::AtomicBool::new(false);
    fn run_seed_with(seed: u64, ps: u64, np: u64, strict: bool) -> Result<(), String> {
        let p = std::env::temp_dir().join(format!("jammdb-cex-history-{}-{}-{}-{}-{}.db", seed, ps, np, strict, std::process::id()));
        let _ = std::fs::remove_file(&p);
        let res = (|| {
            let mut r = Rng(seed.wrapping_mul(0x9E3779B97F4A7C15) ^ 0xD1B54A32D192ED03);
            let opts = || OpenOptions::new().pagesize(ps).num_pages(np as usize).strict_mode(strict).mmap_populate(POPULATE.load(std::sync::atomic::Ordering::SeqCst));
            let mut db = opts().open(&p).map_err(|e| format!("open: {:?}", e))?;
            let mut committed = MB::default();
            let mut log: Vec<String> = Vec::new();
            for txn in 0..12 {
                let mut m = committed.clone();
                let tx = db.tx(true).map_err(|e| format!("tx(true): {:?}", e))?;
                let nops = 1 + r.below(25);
                for opn in 0..nops {
                    let mut ps = Vec::new();
                    paths(&m, &mut Vec::new(), &mut ps);
                    // choose where: the top level (tx) or an existing bucket (depth <= 3)
                    let at_top = ps.is_empty() || r.below(5) == 0;
                    let path: Vec<Vec<u8>> = if at_top { vec![] } else { ps[r.below(ps.len() as u64) as usize].clone() };
                    let k = key(&mut r);
                    let op = r.below(if at_top { 4 } else { 9 });
                    let here = format!("seed {} transaction {} operation {} (bucket depth {})", seed, txn, opn, path.len());
                    macro_rules! expect { ($what:expr, $got:expr, $want:expr) => {{
                        let (g, w): (String, String) = ($got, $want);
                        log.push(format!("{}@{}:{}", $what, path.len(), String::from_utf8_lossy(&k[..k.len().min(4)])));
                        if std::env::var("VERIF_CEX_TRACE").is_ok() { println!("TRACE tx{} {} path={:?} key={:?}/{} -> {}", txn, $what, path.iter().map(|p| format!("{}/{}", String::from_utf8_lossy(&p[..p.len().min(4)]), p.len())).collect::<Vec<_>>(), String::from_utf8_lossy(&k[..k.len().min(4)]), k.len(), g); }
                        if g != w {
                            return Err(format!("{}: {} on key {:?} (length {}) returned {}, the reference map says {}; last operations: {}", here, $what,
                                String::from_utf8_lossy(&k[..k.len().min(6)]), k.len(), g, w, log.iter().rev().take(12).rev().cloned().collect::<Vec<_>>().join(" ")));
                        }
                    }}; }
                    if at_top {
                        let exists = m.items.contains_key(&k);
                        match op {
                            0 => { let g = tx.create_bucket(k.clone()).map(|_| ()); let w = if exists { Err("BucketExists") } else { Ok(()) };
                                   if !exists { m.items.insert(k.clone(), M::B(MB::default())); m.next_int += 0; }
                                   expect!("Tx::create_bucket", format!("{:?}", g.map_err(|e| kind(&e))), format!("{:?}", w)); }
                            1 => { let g = tx.get_or_create_bucket(k.clone()).map(|_| ());
                                   if !exists { m.items.insert(k.clone(), M::B(MB::default())); }
                                   expect!("Tx::get_or_create_bucket", format!("{:?}", g.map_err(|e| kind(&e))), format!("{:?}", Ok::<(), &str>(()))); }
                            2 => { let g = tx.delete_bucket(k.clone()); let w = if exists { Ok(()) } else { Err("BucketMissing") };
                                   m.items.remove(&k);
                                   expect!("Tx::delete_bucket", format!("{:?}", g.map_err(|e| kind(&e))), format!("{:?}", w)); }
                            _ => { let g = tx.get_bucket(k.clone()).map(|_| ()); let w = if exists { Ok(()) } else { Err("BucketMissing") };
                                   expect!("Tx::get_bucket", format!("{:?}", g.map_err(|e| kind(&e))), format!("{:?}", w)); }
                        }
                        continue;
                    }
                    if path.len() >= 3 && (op == 4 || op == 5) { continue; }
                    let b = bucket_at(&tx, &path);
                    let mb = model_at(&mut m, &path);
                    let cur = mb.items.get(&k).cloned();
                    {
                        // every operation first reads the key it is about to touch (point lookup against the reference)
                        let g = b.get(k.clone()).map(|d| match d { Data::KeyValue(kv) => kv.value().len() as i64, Data::Bucket(_) => -1 });
                        let w = cur.as_ref().map(|c| match c { M::Kv(v) => v.len() as i64, M::B(_) => -1 });
                        expect!("Bucket::get (before the operation)", format!("{:?}", g), format!("{:?}", w));
                    }
                    match op {
                        0 | 1 | 2 => {
                            let v = value(&mut r);
                            let g = b.put(k.clone(), v.clone()).map(|old| old.map(|kv| kv.value().to_vec()));
                            let w: Result<Option<Vec<u8>>, &str> = match &cur { Some(M::B(_)) => Err("IncompatibleValue"), Some(M::Kv(o)) => Ok(Some(o.clone())), None => Ok(None) };
                            if w.is_ok() { if cur.is_none() { mb.next_int += 1; } mb.items.insert(k.clone(), M::Kv(v)); }
                            expect!("Bucket::put", format!("{:?}", g.map(|o| o.map(|v| v.len())).map_err(|e| kind(&e))), format!("{:?}", w.map(|o| o.map(|v| v.len()))));
                        }
                        3 => {
                            let g = b.delete(k.clone()).map(|kv| kv.value().to_vec());
                            let w: Result<Vec<u8>, &str> = match &cur { Some(M::B(_)) => Err("IncompatibleValue"), Some(M::Kv(o)) => Ok(o.clone()), None => Err("KeyValueMissing") };
                            if w.is_ok() { mb.items.remove(&k); }
                            expect!("Bucket::delete", format!("{:?}", g.map(|v| v.len()).map_err(|e| kind(&e))), format!("{:?}", w.map(|v| v.len())));
                        }
                        4 => {
                            let g = b.create_bucket(k.clone()).map(|_| ());
                            let w = match &cur { Some(M::B(_)) => Err("BucketExists"), Some(M::Kv(_)) => Err("IncompatibleValue"), None => Ok(()) };
                            if w.is_ok() { mb.items.insert(k.clone(), M::B(MB::default())); mb.next_int += 1; }
                            expect!("Bucket::create_bucket", format!("{:?}", g.map_err(|e| kind(&e))), format!("{:?}", w));
                        }
                        5 => {
                            let g = b.get_or_create_bucket(k.clone()).map(|_| ());
                            let w = match &cur { Some(M::Kv(_)) => Err("IncompatibleValue"), _ => Ok(()) };
                            if cur.is_none() { mb.items.insert(k.clone(), M::B(MB::default())); mb.next_int += 1; }
                            expect!("Bucket::get_or_create_bucket", format!("{:?}", g.map_err(|e| kind(&e))), format!("{:?}", w));
                        }
                        6 => {
                            let g = b.delete_bucket(k.clone());
                            let w = match &cur { Some(M::B(_)) => Ok(()), Some(M::Kv(_)) => Err("IncompatibleValue"), None => Err("BucketMissing") };
                            if w.is_ok() { mb.items.remove(&k); }
                            expect!("Bucket::delete_bucket", format!("{:?}", g.map_err(|e| kind(&e))), format!("{:?}", w));
                        }
                        7 => {
                            let g = b.get_bucket(k.clone()).map(|_| ());
                            let w = match &cur { Some(M::B(_)) => Ok(()), Some(M::Kv(_)) => Err("IncompatibleValue"), None => Err("BucketMissing") };
                            expect!("Bucket::get_bucket", format!("{:?}", g.map_err(|e| kind(&e))), format!("{:?}", w));
                        }
                        _ => {
                            let g = b.get(k.clone()).map(|d| match d { Data::KeyValue(kv) => kv.value().len() as i64, Data::Bucket(_) => -1 });
                            let w = cur.as_ref().map(|c| match c { M::Kv(v) => v.len() as i64, M::B(_) => -1 });
                            expect!("Bucket::get", format!("{:?}", g), format!("{:?}", w));
                        }
                    }
                    {
                        let now = model_at(&mut m, &path).items.get(&k).cloned();
                        let g = b.get(k.clone()).map(|d| match d { Data::KeyValue(kv) => kv.value().len() as i64, Data::Bucket(_) => -1 });
                        let w = now.as_ref().map(|c| match c { M::Kv(v) => v.len() as i64, M::B(_) => -1 });
                        expect!("Bucket::get (after the operation)", format!("{:?}", g), format!("{:?}", w));
                    }
                }
                // what the transaction itself sees before it ends
                {
                    let mut ps = Vec::new();
                    paths(&m, &mut Vec::new(), &mut ps);
                    for path in ps.iter().filter(|p| p.len() == 1) {
                        let mbm = model_at(&mut m, path).clone();
                        read_back(&bucket_at(&tx, path), &mbm, &format!("seed {} transaction {} (inside the write transaction, before it ends; last operations: {})", seed, txn, log.iter().rev().take(12).rev().cloned().collect::<Vec<_>>().join(" ")))?;
                    }
                }
                match r.below(10) {
                    0 | 1 => { drop(tx); log.push("ROLLBACK".into()); }
                    _ => { tx.commit().map_err(|e| format!("seed {} transaction {}: commit fails: {:?}; last operations: {}", seed, txn, e, log.iter().rev().take(12).rev().cloned().collect::<Vec<_>>().join(" ")))?; committed = m; log.push("COMMIT".into()); }
                }
                let ctx = format!("seed {} after transaction {} (last operations: {})", seed, txn, log.iter().rev().take(14).rev().cloned().collect::<Vec<_>>().join(" "));
                db.check().map_err(|e| format!("{}: DB::check() fails: {:?}", ctx, e))?;
                read_all(&db, &committed, &ctx)?;
                if std::env::var("VERIF_CEX_STOP").ok().and_then(|s| s.parse::<u64>().ok()) == Some(txn as u64) { return Err(format!("stopped after transaction {} as requested", txn)); }
                if r.below(4) == 0 {
                    drop(db);
                    db = opts().open(&p).map_err(|e| format!("{}: reopen fails: {:?}", ctx, e))?;
                    log.push("REOPEN".into());
                    read_all(&db, &committed, &format!("{} after close + reopen", ctx))?;
                }
            }
            Ok(())
        })();
        if res.is_err() && std::env::var("VERIF_CEX_KEEP").is_ok() { println!("KEPT {}", p.display()); } else { let _ = std::fs::remove_file(&p); }
        res
    }

    // scripted shapes that random histories rarely reach: long runs of nested-bucket deletions in a multi-leaf parent
    fn run_shape(nested: u32, del_from: u32, del_to: u32, top_level: bool) -> Result<(), String> {
        let p = std::env::temp_dir().join(format!("jammdb-cex-shape-{}-{}-{}-{}.db", nested, del_from, top_level, std::process::id()));
        let _ = std::fs::remove_file(&p);
        let res = (|| {
            let what = format!("shape: {} {} buckets, then ONE transaction deleting buckets [{}..{}), page size 1024", nested, if top_level { "top-level" } else { "nested (in bucket `parent`)" }, del_from, del_to);
            let db = OpenOptions::new().pagesize(1024).open(&p).map_err(|e| format!("open: {:?}", e))?;
            let mut m = MB::default();
            let nm = |i: u32| format!("bucket{:04}", i).into_bytes();
            {
                let tx = db.tx(true).unwrap();
                if top_level {
                    for i in 0..nested { let b = tx.create_bucket(nm(i)).unwrap(); b.put("k", "v").unwrap(); let mut c = MB::default(); c.items.insert(b"k".to_vec(), M::Kv(b"v".to_vec())); c.next_int = 1; m.items.insert(nm(i), M::B(c)); }
                } else {
                    let par = tx.create_bucket("parent").unwrap();
                    let mut pm = MB::default();
                    for i in 0..nested { let b = par.create_bucket(nm(i)).unwrap(); b.put("k", "v").unwrap(); let mut c = MB::default(); c.items.insert(b"k".to_vec(), M::Kv(b"v".to_vec())); c.next_int = 1; pm.items.insert(nm(i), M::B(c)); pm.next_int += 1; }
                    m.items.insert(b"parent".to_vec(), M::B(pm));
                }
                tx.commit().map_err(|e| format!("{}: first commit fails: {:?}", what, e))?;
            }
            {
                let tx = db.tx(true).unwrap();
                for i in del_from..del_to {
                    if top_level { tx.delete_bucket(nm(i)).map_err(|e| format!("{}: delete_bucket fails: {}", what, kind(&e)))?; m.items.remove(&nm(i)); }
                    else { tx.get_bucket("parent").unwrap().delete_bucket(nm(i)).map_err(|e| format!("{}: delete_bucket fails: {}", what, kind(&e)))?; model_at(&mut m, &[b"parent".to_vec()]).items.remove(&nm(i)); }
                }
                tx.commit().map_err(|e| format!("{}: commit fails: {:?}", what, e))?;
            }
            db.check().map_err(|e| format!("{}: DB::check() fails: {:?}", what, e))?;
            read_all(&db, &m, &what)?;
            Ok(())
        })();
        let _ = std::fs::remove_file(&p);
        res
    }

    // a three-level bucket with nested buckets sprinkled in; ONE transaction empties (almost) the whole subtree of an inner
    // branch, writes into a nested bucket that survives there and updates a key to the right of it: exercises merges of
    // inner branch nodes into either sibling together with the commit-time rewrite of nested-bucket entries
    fn run_deep_shape(lo: u32, hi: u32) -> Result<(), String> {
        let p = std::env::temp_dir().join(format!("jammdb-cex-deep-{}-{}-{}.db", lo, hi, std::process::id()));
        let _ = std::fs::remove_file(&p);
        let res = (|| {
            let what = format!("shape: bucket `big` with 1500 keys and a nested bucket after every 25th key (page size 1024); ONE transaction deletes the keys [{}..{}) but keeps the nested buckets, writes into the nested bucket in the middle and updates a key to the right", lo, hi);
            let db = OpenOptions::new().pagesize(1024).open(&p).map_err(|e| format!("open: {:?}", e))?;
            let key = |i: u32| format!("key-{:08}", i).into_bytes();
            let sub = |i: u32| format!("key-{:08}-sub", i).into_bytes();
            let mut m = MB::default();
            {
                let tx = db.tx(true).unwrap();
                let big = tx.create_bucket("big").unwrap();
                let mut bm = MB::default();
                for i in 0..1500u32 {
                    let v = vec![b'v'; 40];
                    big.put(key(i), v.clone()).unwrap(); bm.items.insert(key(i), M::Kv(v)); bm.next_int += 1;
                    if i % 25 == 12 {
                        let nb = big.create_bucket(sub(i)).unwrap(); nb.put("x", "y").unwrap();
                        let mut c = MB::default(); c.items.insert(b"x".to_vec(), M::Kv(b"y".to_vec())); c.next_int = 1;
                        bm.items.insert(sub(i), M::B(c)); bm.next_int += 1;
                    }
                }
                m.items.insert(b"big".to_vec(), M::B(bm));
                tx.commit().map_err(|e| format!("{}: first commit fails: {:?}", what, e))?;
            }
            {
                let tx = db.tx(true).unwrap();
                {
                    let big = tx.get_bucket("big").unwrap();
                    let bm = model_at(&mut m, &[b"big".to_vec()]);
                    for i in lo..hi { big.delete(key(i)).map_err(|e| format!("{}: delete fails: {}", what, kind(&e)))?; bm.items.remove(&key(i)); }
                    let mid = ((lo + hi) / 2) / 25 * 25 + 12;
                    let nb = big.get_bucket(sub(mid)).map_err(|e| format!("{}: nested bucket missing: {}", what, kind(&e)))?;
                    nb.put("x2", "y2").unwrap();
                    if let Some(M::B(c)) = bm.items.get_mut(&sub(mid)) { c.items.insert(b"x2".to_vec(), M::Kv(b"y2".to_vec())); c.next_int += 1; }
                    if hi + 10 < 1500 { let v = vec![b'U'; 40]; big.put(key(hi + 10), v.clone()).unwrap(); bm.items.insert(key(hi + 10), M::Kv(v)); }
                }
                tx.commit().map_err(|e| format!("{}: commit fails: {:?}", what, e))?;
            }
            db.check().map_err(|e| format!("{}: DB::check() fails: {:?}", what, e))?;
            read_all(&db, &m, &what)?;
            Ok(())
        })();
        let _ = std::fs::remove_file(&p);
        res
    }

    // a parent bucket of a few leaves with ONE nested bucket of several leaves; ONE transaction deletes a window of the parent's
    // keys (every prefix and every suffix: whole leaves emptied while others are never touched, so that rebalancing promotes an
    // untouched page) AND reworks the nested bucket (deletes that merge nodes and give pages back, one insertion); then an
    // ordinary transaction on top.  Exercises: nested-bucket headers re-stored at commit whatever happens to the parent's tree.
    fn run_window_shape(outer: u32, inner: u32, nested_first: bool, lo: u32, hi: u32) -> Result<(), String> {
        let p = std::env::temp_dir().join(format!("jammdb-cex-window-{}-{}-{}-{}-{}-{}.db", outer, inner, nested_first, lo, hi, std::process::id()));
        let _ = std::fs::remove_file(&p);
        let res = (|| {
            let what = format!("shape: bucket `outer` with {} keys (100-byte values) and one nested bucket ({} keys) sorted {} them, page size 1024; ONE transaction deletes the outer keys [{}..{}), deletes inner keys 1..4 and inserts one; then one more ordinary transaction", outer, inner, if nested_first { "before" } else { "after" }, lo, hi);
            let db = OpenOptions::new().pagesize(1024).open(&p).map_err(|e| format!("open: {:?}", e))?;
            let okey = |i: u32| format!("key-{:04}", i).into_bytes();
            let ikey = |i: u32| format!("in-{:05}", i).into_bytes();
            let val = |i: u32| vec![b'a' + (i % 26) as u8; 100];
            let iname: Vec<u8> = if nested_first { b"00-inner".to_vec() } else { b"zz-inner".to_vec() };
            let mut m = MB::default();
            {
                let tx = db.tx(true).unwrap();
                let ob = tx.create_bucket("outer").unwrap();
                let mut om = MB::default();
                for i in 0..outer { ob.put(okey(i), val(i)).unwrap(); om.items.insert(okey(i), M::Kv(val(i))); om.next_int += 1; }
                let ib = ob.create_bucket(iname.clone()).unwrap();
                let mut im = MB::default();
                for i in 0..inner { ib.put(ikey(i), val(i)).unwrap(); im.items.insert(ikey(i), M::Kv(val(i))); im.next_int += 1; }
                om.items.insert(iname.clone(), M::B(im)); om.next_int += 1;
                m.items.insert(b"outer".to_vec(), M::B(om));
                tx.commit().map_err(|e| format!("{}: first commit fails: {:?}", what, e))?;
            }
            {
                let tx = db.tx(true).unwrap();
                {
                    let ob = tx.get_bucket("outer").unwrap();
                    let ib = ob.get_bucket(iname.clone()).map_err(|e| format!("{}: nested bucket missing: {}", what, kind(&e)))?;
                    let om = model_at(&mut m, &[b"outer".to_vec()]);
                    for i in lo..hi { ob.delete(okey(i)).map_err(|e| format!("{}: delete fails: {}", what, kind(&e)))?; om.items.remove(&okey(i)); }
                    if let Some(M::B(im)) = om.items.get_mut(&iname) {
                        for i in 1..4u32.min(inner) { ib.delete(ikey(i)).map_err(|e| format!("{}: inner delete fails: {}", what, kind(&e)))?; im.items.remove(&ikey(i)); }
                        ib.put(ikey(90000), val(7)).unwrap(); im.items.insert(ikey(90000), M::Kv(val(7))); im.next_int += 1;
                    }
                }
                tx.commit().map_err(|e| format!("{}: commit fails: {:?}", what, e))?;
            }
            db.check().map_err(|e| format!("{}: DB::check() fails after the window transaction: {:?}", what, e))?;
            read_all(&db, &m, &what)?;
            {
                let tx = db.tx(true).unwrap();
                {
                    let ob = tx.get_bucket("outer").unwrap();
                    let ib = ob.get_bucket(iname.clone()).map_err(|e| format!("{}: nested bucket missing in the follow-up transaction: {}", what, kind(&e)))?;
                    let om = model_at(&mut m, &[b"outer".to_vec()]);
                    if let Some(M::B(im)) = om.items.get_mut(&iname) {
                        for i in 91000..91010u32 { ib.put(ikey(i), val(i)).unwrap(); im.items.insert(ikey(i), M::Kv(val(i))); im.next_int += 1; }
                    }
                    ob.put(okey(5000), val(1)).unwrap(); if om.items.insert(okey(5000), M::Kv(val(1))).is_none() { om.next_int += 1; }
                }
                tx.commit().map_err(|e| format!("{}: follow-up commit fails: {:?}", what, e))?;
            }
            db.check().map_err(|e| format!("{}: DB::check() fails after the follow-up transaction: {:?}", what, e))?;
            read_all(&db, &m, &format!("{} (after the follow-up transaction)", what))?;
            Ok(())
        })();
        let _ = std::fs::remove_file(&p);
        res
    }

    #[test]
    fn cex_history_window_shapes() {
        for (outer, inner) in [(8u32, 24u32), (20, 40)] {
            for nested_first in [false, true] {
                let mut windows: Vec<(u32, u32)> = Vec::new();
                for k in 1..=outer { windows.push((0, k)); }
                for k in 1..outer { windows.push((k, outer)); }
                for (lo, hi) in windows {
                    match std::panic::catch_unwind(|| run_window_shape(outer, inner, nested_first, lo, hi)) {
                        Ok(Ok(())) => {}
                        Ok(Err(e)) => { println!("CEX history (C01/C05): {}", e); panic!("window shape mismatch"); }
                        Err(_) => { println!("CEX history (C01 nothing panics): window shape outer={} inner={} nested_first={} [{}..{}) panicked", outer, inner, nested_first, lo, hi); panic!("window shape panic"); }
                    }
                }
            }
        }
    }

    // C16 (strict mode never rejects a valid commit) / C05: a three-level bucket is drained from the front, ONE transaction per
    // drain length (every length 1..130, and all / all but one key): leaves merge away, an interior branch is left with a single
    // short leaf.  Under strict mode the commit must succeed, DB::check() must pass and the contents must be the model's
    fn run_fifo_drain(ps: u64, strict: bool, m: u32) -> Result<(), String> {
        let p = std::env::temp_dir().join(format!("jammdb-cex-drain-{}-{}-{}-{}.db", ps, strict, m, std::process::id()));
        let _ = std::fs::remove_file(&p);
        let res = (|| {
            let what = format!("shape: bucket `q` with 600 keys of 146-byte values (page size {}, strict mode {}); ONE transaction deletes the first {} keys", ps, strict, m);
            let db = OpenOptions::new().pagesize(ps).strict_mode(strict).open(&p).map_err(|e| format!("open: {:?}", e))?;
            let key = |i: u32| format!("k{:07}", i).into_bytes();
            let mut mdl = MB::default();
            {
                let tx = db.tx(true).unwrap();
                let b = tx.create_bucket("q").unwrap();
                let mut bm = MB::default();
                for i in 0..600u32 { let v = vec![b'q'; 146]; b.put(key(i), v.clone()).unwrap(); bm.items.insert(key(i), M::Kv(v)); bm.next_int += 1; }
                mdl.items.insert(b"q".to_vec(), M::B(bm));
                tx.commit().map_err(|e| format!("{}: the filling commit fails: {:?}", what, e))?;
            }
            {
                let tx = db.tx(true).unwrap();
                { let b = tx.get_bucket("q").unwrap(); let bm = model_at(&mut mdl, &[b"q".to_vec()]); for i in 0..m { b.delete(key(i)).map_err(|e| format!("{}: delete fails: {}", what, kind(&e)))?; bm.items.remove(&key(i)); } }
                tx.commit().map_err(|e| format!("{}: a VALID commit is rejected: {:?}", what, e))?;
            }
            db.check().map_err(|e| format!("{}: DB::check() fails: {:?}", what, e))?;
            read_all(&db, &mdl, &what)?;
            Ok(())
        })();
        let _ = std::fs::remove_file(&p);
        res
    }

    #[test]
    fn cex_history_fifo_drain() {
        for ps in [1024u64, 1032] {
            for strict in [true, false] {
                let mut ms: Vec<u32> = (1..=130).collect();
                ms.extend([300, 599, 600]);
                for m in ms {
                    if !strict && m % 2 == 0 && m < 599 { continue; }
                    match std::panic::catch_unwind(|| run_fifo_drain(ps, strict, m)) {
                        Ok(Ok(())) => {}
                        Ok(Err(e)) => { println!("CEX history (C16 / C05): {}", e); panic!("drain mismatch"); }
                        Err(_) => { println!("CEX history (C01 nothing panics): fifo drain at page size {} strict {} length {} panicked", ps, strict, m); panic!("drain panic"); }
                    }
                }
            }
        }
    }

    // C07 / C01: a parent with MANY committed child buckets, each holding a nested bucket.  ONE write transaction changes
    // something in the nested bucket of one child (the child's own entries stay as they are), lets go of every handle, opens
    // all the other children (any cache of handles is churned), and then reads the change back through fresh handles; then
    // commit, read_all, check().  Exercises: what the transaction keeps of a child whose only changes sit one level further down
    fn run_many_children_shape(children: u32, touched: u32) -> Result<(), String> {
        let p = std::env::temp_dir().join(format!("jammdb-cex-children-{}-{}-{}.db", children, touched, std::process::id()));
        let _ = std::fs::remove_file(&p);
        let res = (|| {
            let what = format!("shape: bucket `p` with {} child buckets, each with one key and a nested bucket `inner` (page size 1024); ONE transaction puts a key into the `inner` of child #{} only, drops its handles, opens every other child, and reads the key back", children, touched);
            let db = OpenOptions::new().pagesize(1024).open(&p).map_err(|e| format!("open: {:?}", e))?;
            let nm = |i: u32| format!("b{:04}", i).into_bytes();
            let mut m = MB::default();
            {
                let tx = db.tx(true).unwrap();
                let par = tx.create_bucket("p").unwrap();
                let mut pm = MB::default();
                for i in 0..children {
                    let c = par.create_bucket(nm(i)).unwrap(); c.put("own", "1").unwrap();
                    let inner = c.create_bucket("inner").unwrap(); inner.put("k", "v").unwrap();
                    let mut im = MB::default(); im.items.insert(b"k".to_vec(), M::Kv(b"v".to_vec())); im.next_int = 1;
                    let mut cm = MB::default(); cm.items.insert(b"own".to_vec(), M::Kv(b"1".to_vec())); cm.items.insert(b"inner".to_vec(), M::B(im)); cm.next_int = 2;
                    pm.items.insert(nm(i), M::B(cm)); pm.next_int += 1;
                }
                m.items.insert(b"p".to_vec(), M::B(pm));
                tx.commit().map_err(|e| format!("{}: first commit fails: {:?}", what, e))?;
            }
            {
                let tx = db.tx(true).unwrap();
                {
                    { let inner = tx.get_bucket("p").unwrap().get_bucket(nm(touched)).unwrap().get_bucket("inner").unwrap(); inner.put("visit", "0").unwrap(); }
                    if let Some(M::B(cm)) = model_at(&mut m, &[b"p".to_vec()]).items.get_mut(&nm(touched)) { if let Some(M::B(im)) = cm.items.get_mut(&b"inner".to_vec()) { im.items.insert(b"visit".to_vec(), M::Kv(b"0".to_vec())); im.next_int += 1; } }
                    { let par = tx.get_bucket("p").unwrap(); for i in 0..children { if i != touched { let c = par.get_bucket(nm(i)).map_err(|e| format!("{}: child missing: {}", what, kind(&e)))?; let _ = c.get_kv("own"); } } }
                    let got = tx.get_bucket("p").unwrap().get_bucket(nm(touched)).unwrap().get_bucket("inner").unwrap().get_kv("visit").map(|kv| kv.value().to_vec());
                    if got != Some(b"0".to_vec()) { return Err(format!("{}: inside the transaction the key reads back as {:?}", what, got)); }
                    let mbm = model_at(&mut m, &[b"p".to_vec()]).clone();
                    read_back(&tx.get_bucket("p").unwrap(), &mbm, &format!("{} (inside the write transaction)", what))?;
                }
                tx.commit().map_err(|e| format!("{}: commit fails: {:?}", what, e))?;
            }
            db.check().map_err(|e| format!("{}: DB::check() fails: {:?}", what, e))?;
            read_all(&db, &m, &what)?;
            Ok(())
        })();
        let _ = std::fs::remove_file(&p);
        res
    }

    #[test]
    fn cex_history_many_children() {
        for (children, touched) in [(8u32, 3u32), (140, 0), (300, 0), (300, 299), (300, 150)] {
            match std::panic::catch_unwind(|| run_many_children_shape(children, touched)) {
                Ok(Ok(())) => {}
                Ok(Err(e)) => { println!("CEX history (C07/C01): {}", e); panic!("children shape mismatch"); }
                Err(_) => { println!("CEX history (C01 nothing panics): many-children shape {} / {} panicked", children, touched); panic!("children shape panic"); }
            }
        }
    }

    // E13 (C05 / C01): handles to buckets BELOW a bucket that is deleted are handles to deleted buckets.  For every way of using such
    // a stale handle (taken before the ancestor was deleted, at nesting depth 1 or 2 below it) the call must either be refused the
    // documented way (panic) or leave no trace: the commit that follows passes DB::check() and reads back as the model
    // (the ancestor is gone, everything else as before).  Before the repair `delete_bucket` through the handle freed pages twice.
    fn run_stale_handle_shape(depth_below: usize, op: usize, big: bool) -> Result<(), String> {
        let p = std::env::temp_dir().join(format!("jammdb-cex-stale-{}-{}-{}-{}.db", depth_below, op, big, std::process::id()));
        let _ = std::fs::remove_file(&p);
        let opname = ["delete_bucket of its child", "put", "create_bucket", "delete of its key", "get_or_create_bucket of its child then put"][op];
        let res = (|| {
            let what = format!("shape: buckets a / b / c / d nested in each other ({} keys each, page size 1024) and a sibling `keep`, committed; ONE transaction takes a handle to {} , deletes bucket `a` at the top level, and then calls {} through the stale handle; commit", if big { 40 } else { 1 }, ["b", "c"][depth_below - 1], opname);
            let db = OpenOptions::new().pagesize(1024).open(&p).map_err(|e| format!("open: {:?}", e))?;
            let n = if big { 40u32 } else { 1 };
            let mut m = MB::default();
            {
                let tx = db.tx(true).unwrap();
                let a = tx.create_bucket("a").unwrap();
                let b = a.create_bucket("b").unwrap();
                let c = b.create_bucket("c").unwrap();
                let d = c.create_bucket("d").unwrap();
                for (h, _) in [(&a, 0), (&b, 1), (&c, 2), (&d, 3)] { for i in 0..n { h.put(format!("k{:03}", i), vec![b'v'; 200]).unwrap(); } }
                let keep = tx.create_bucket("keep").unwrap();
                let mut km = MB::default();
                for i in 0..n { keep.put(format!("k{:03}", i), vec![b'w'; 200]).unwrap(); km.items.insert(format!("k{:03}", i).into_bytes(), M::Kv(vec![b'w'; 200])); km.next_int += 1; }
                m.items.insert(b"keep".to_vec(), M::B(km)); m.next_int = 2;
                tx.commit().map_err(|e| format!("{}: first commit fails: {:?}", what, e))?;
            }
            let refused;
            {
                let tx = db.tx(true).unwrap();
                let a = tx.get_bucket("a").unwrap();
                let b = a.get_bucket("b").unwrap();
                let c = b.get_bucket("c").unwrap();
                let stale = if depth_below == 1 { &b } else { &c };
                let child = if depth_below == 1 { "c" } else { "d" };
                tx.delete_bucket("a").map_err(|e| format!("{}: deleting `a` fails: {}", what, kind(&e)))?;
                let r = std::panic::catch_unwind(std::panic::AssertUnwindSafe(|| -> Result<(), Error> {
                    match op {
                        0 => stale.delete_bucket(child),
                        1 => stale.put("late", "x").map(|_| ()),
                        2 => stale.create_bucket("late-bucket").map(|_| ()),
                        3 => stale.delete("k000").map(|_| ()),
                        _ => stale.get_or_create_bucket(child).and_then(|g| g.put("late", "x").map(|_| ())),
                    }
                }));
                refused = r.is_err();
                tx.commit().map_err(|e| format!("{}: the commit fails: {:?} (the stale call {})", what, e, if refused { "panicked" } else { "returned" }))?;
            }
            let tail = format!("{} (the stale call {})", what, if refused { "was refused with a panic" } else { "returned without panicking" });
            db.check().map_err(|e| format!("{}: DB::check() fails: {:?}", tail, e))?;
            read_all(&db, &m, &tail)?;
            // and the space is sound for later work
            { let tx = db.tx(true).unwrap(); let k = tx.get_bucket("keep").unwrap(); k.put("after", vec![b'z'; 900]).unwrap(); tx.commit().map_err(|e| format!("{}: a later commit fails: {:?}", tail, e))?; }
            db.check().map_err(|e| format!("{}: DB::check() fails after a later commit: {:?}", tail, e))?;
            Ok(())
        })();
        let _ = std::fs::remove_file(&p);
        res
    }

    #[test]
    fn cex_history_stale_handles_below_a_deleted_bucket() {
        for depth_below in [1usize, 2] { for op in 0..5usize { for big in [false, true] {
            match std::panic::catch_unwind(|| run_stale_handle_shape(depth_below, op, big)) {
                Ok(Ok(())) => {}
                Ok(Err(e)) => { println!("CEX history (C05/C01, E13): {}", e); panic!("stale handle mismatch"); }
                Err(_) => { println!("CEX history (C01 nothing panics outside the stale call): stale-handle shape depth {} op {} big {} panicked", depth_below, op, big); panic!("stale handle panic"); }
            }
        } } }
    }

    // C05: a nested bucket is deleted and THEN one of its ancestors, in one transaction (E10), for nested buckets of one page and of
    // several pages (a multi-level tree): no page may be released twice, whatever order the walk pushed the pages in
    fn run_nested_then_ancestor_shape(keys: u32, top: bool) -> Result<(), String> {
        let p = std::env::temp_dir().join(format!("jammdb-cex-nta-{}-{}-{}.db", keys, top, std::process::id()));
        let _ = std::fs::remove_file(&p);
        let res = (|| {
            let what = format!("shape: buckets a / b / c nested in each other, {} keys of 200 bytes in each (page size 1024) and a sibling `keep`, committed; ONE transaction deletes `c` through b, then {}; commit", keys, if top { "`a` at the top level" } else { "`b` through a" });
            let db = OpenOptions::new().pagesize(1024).open(&p).map_err(|e| format!("open: {:?}", e))?;
            let mut m = MB::default();
            {
                let tx = db.tx(true).unwrap();
                let a = tx.create_bucket("a").unwrap();
                let b = a.create_bucket("b").unwrap();
                let c = b.create_bucket("c").unwrap();
                let mut am = MB::default();
                for h in [&a, &b, &c] { for i in 0..keys { h.put(format!("k{:03}", i), vec![b'v'; 200]).unwrap(); } }
                for i in 0..keys { am.items.insert(format!("k{:03}", i).into_bytes(), M::Kv(vec![b'v'; 200])); }
                am.next_int = keys as u64 + 1;
                let keep = tx.create_bucket("keep").unwrap(); keep.put("x", "y").unwrap();
                let mut km = MB::default(); km.items.insert(b"x".to_vec(), M::Kv(b"y".to_vec())); km.next_int = 1;
                m.items.insert(b"keep".to_vec(), M::B(km)); m.next_int = 2;
                if !top { m.items.insert(b"a".to_vec(), M::B(am)); }
                tx.commit().map_err(|e| format!("{}: first commit fails: {:?}", what, e))?;
            }
            {
                let tx = db.tx(true).unwrap();
                {
                    let a = tx.get_bucket("a").unwrap();
                    { let b = a.get_bucket("b").unwrap(); b.delete_bucket("c").map_err(|e| format!("{}: deleting c fails: {}", what, kind(&e)))?; }
                    if !top { a.delete_bucket("b").map_err(|e| format!("{}: deleting b fails: {}", what, kind(&e)))?; }
                }
                if top { tx.delete_bucket("a").map_err(|e| format!("{}: deleting a fails: {}", what, kind(&e)))?; }
                tx.commit().map_err(|e| format!("{}: the commit fails: {:?}", what, e))?;
            }
            db.check().map_err(|e| format!("{}: DB::check() fails: {:?}", what, e))?;
            read_all(&db, &m, &what)?;
            Ok(())
        })();
        let _ = std::fs::remove_file(&p);
        res
    }

    #[test]
    fn cex_history_nested_then_ancestor() {
        for keys in [1u32, 5, 40, 200] { for top in [false, true] {
            match std::panic::catch_unwind(|| run_nested_then_ancestor_shape(keys, top)) {
                Ok(Ok(())) => {}
                Ok(Err(e)) => { println!("CEX history (C05): {}", e); panic!("nested-then-ancestor mismatch"); }
                Err(_) => { println!("CEX history (C01 nothing panics): nested-then-ancestor shape {} / {} panicked", keys, top); panic!("nested-then-ancestor panic"); }
            }
        } }
    }

    // C07: handles to child buckets obtained from a LISTING (Bucket::buckets / Tx::buckets) are the transaction's handles: what is
    // written through them is read back through a handle looked up by name, through a second listing, and after commit
    fn run_listed_handles_shape(top: bool) -> Result<(), String> {
        let p = std::env::temp_dir().join(format!("jammdb-cex-listed-{}-{}.db", top, std::process::id()));
        let _ = std::fs::remove_file(&p);
        let res = (|| {
            let what = format!("shape: {} with 5 committed child buckets (one key each, page size 1024); ONE write transaction walks the LISTING of the children, puts a key and deletes a key through each listed handle, then reads every child back by name", if top { "the root" } else { "bucket `p`" });
            let db = OpenOptions::new().pagesize(1024).open(&p).map_err(|e| format!("open: {:?}", e))?;
            let nm = |i: u32| format!("c{:02}", i).into_bytes();
            let mut m = MB::default();
            let mut pm = MB::default();
            {
                let tx = db.tx(true).unwrap();
                let par = if top { None } else { Some(tx.create_bucket("p").unwrap()) };
                for i in 0..5u32 {
                    let c = match &par { Some(p) => p.create_bucket(nm(i)).unwrap(), None => tx.create_bucket(nm(i)).unwrap() };
                    c.put("old", "1").unwrap(); c.put("gone", "2").unwrap();
                    let mut cm = MB::default(); cm.items.insert(b"old".to_vec(), M::Kv(b"1".to_vec())); cm.items.insert(b"gone".to_vec(), M::Kv(b"2".to_vec())); cm.next_int = 2;
                    pm.items.insert(nm(i), M::B(cm)); pm.next_int += 1;
                }
                tx.commit().map_err(|e| format!("{}: first commit fails: {:?}", what, e))?;
            }
            {
                let tx = db.tx(true).unwrap();
                {
                    let listed: Vec<(Vec<u8>, Bucket)> = if top { tx.buckets().map(|(n, b)| (n.name().to_vec(), b)).collect() } else { tx.get_bucket("p").unwrap().buckets().map(|(n, b)| (n.name().to_vec(), b)).collect() };
                    if listed.len() != 5 { return Err(format!("{}: the listing shows {} children", what, listed.len())); }
                    for (n, b) in &listed {
                        b.put("via-listing", n.clone()).map_err(|e| format!("{}: put through a listed handle fails: {}", what, kind(&e)))?;
                        b.delete("gone").map_err(|e| format!("{}: delete through a listed handle fails: {}", what, kind(&e)))?;
                        if let Some(M::B(cm)) = pm.items.get_mut(n) { cm.items.insert(b"via-listing".to_vec(), M::Kv(n.clone())); cm.items.remove(&b"gone".to_vec()); cm.next_int += 1; }
                    }
                }
                for i in 0..5u32 {
                    let c = if top { tx.get_bucket(nm(i)) } else { tx.get_bucket("p").unwrap().get_bucket(nm(i)) }.map_err(|e| format!("{}: child missing by name: {}", what, kind(&e)))?;
                    let got = c.get_kv("via-listing").map(|kv| kv.value().to_vec());
                    if got != Some(nm(i)) { return Err(format!("{}: inside the transaction child {} read by NAME shows {:?} for the key put through the listed handle", what, i, got)); }
                    if c.get_kv("gone").is_some() { return Err(format!("{}: inside the transaction child {} read by NAME still shows the key deleted through the listed handle", what, i)); }
                }
                tx.commit().map_err(|e| format!("{}: commit fails: {:?}", what, e))?;
            }
            if top { m = pm; } else { m.items.insert(b"p".to_vec(), M::B(pm)); m.next_int = 1; }
            db.check().map_err(|e| format!("{}: DB::check() fails: {:?}", what, e))?;
            read_all(&db, &m, &what)?;
            Ok(())
        })();
        let _ = std::fs::remove_file(&p);
        res
    }

    #[test]
    fn cex_history_listed_handles() {
        for top in [false, true] {
            match std::panic::catch_unwind(|| run_listed_handles_shape(top)) {
                Ok(Ok(())) => {}
                Ok(Err(e)) => { println!("CEX history (C07/C01): {}", e); panic!("listed handles mismatch"); }
                Err(_) => { println!("CEX history (C01 nothing panics): listed-handles shape (top {}) panicked", top); panic!("listed handles panic"); }
            }
        }
    }

    // C01 / C16: ONE commit that needs far more than one extension step of the file (a bulk load of about 12 MiB); the next
    // transactions on the same handle, and a reopen, read everything back (the map covers whatever the commit wrote)
    fn run_bulk_load_shape(ps: u64, n: u32, vlen: usize) -> Result<(), String> {
        let p = std::env::temp_dir().join(format!("jammdb-cex-bulk-{}-{}-{}.db", ps, n, std::process::id()));
        let _ = std::fs::remove_file(&p);
        let res = (|| {
            let what = format!("shape: fresh file (page size {}), ONE transaction puts {} values of {} bytes (about {} MiB, several extension steps at once) and commits; then further transactions on the same handle", ps, n, vlen, (n as usize * vlen) >> 20);
            let db = OpenOptions::new().pagesize(ps).open(&p).map_err(|e| format!("open: {:?}", e))?;
            let mut m = MB::default();
            let mut bm = MB::default();
            {
                let tx = db.tx(true).unwrap();
                let b = tx.create_bucket("bulk").unwrap();
                for i in 0..n { let v = vec![(i % 251) as u8; vlen]; b.put(format!("k{:06}", i), v.clone()).unwrap(); bm.items.insert(format!("k{:06}", i).into_bytes(), M::Kv(v)); bm.next_int += 1; }
                tx.commit().map_err(|e| format!("{}: the commit fails: {:?}", what, e))?;
            }
            m.items.insert(b"bulk".to_vec(), M::B(bm)); m.next_int = 1;
            read_all(&db, &m, &format!("{} (first transaction after the bulk commit)", what))?;
            // a SECOND bulk commit: the file is extended again, this time from a length far beyond the first extension step
            {
                let tx = db.tx(true).unwrap();
                { let b = tx.get_bucket("bulk").unwrap(); for i in 0..n { let v = vec![(i % 241) as u8; vlen]; b.put(format!("s{:06}", i), v.clone()).unwrap(); if let Some(M::B(bm)) = m.items.get_mut(&b"bulk".to_vec()) { bm.items.insert(format!("s{:06}", i).into_bytes(), M::Kv(v)); bm.next_int += 1; } } }
                tx.commit().map_err(|e| format!("{}: the SECOND bulk commit (same size again) fails: {:?}", what, e))?;
            }
            read_all(&db, &m, &format!("{} (first transaction after a SECOND bulk commit of the same size)", what))?;
            { let tx = db.tx(true).unwrap(); tx.get_bucket("bulk").unwrap().put("after", "x").unwrap(); tx.commit().map_err(|e| format!("{}: a later commit fails: {:?}", what, e))?; }
            if let Some(M::B(bm)) = m.items.get_mut(&b"bulk".to_vec()) { bm.items.insert(b"after".to_vec(), M::Kv(b"x".to_vec())); bm.next_int += 1; }
            db.check().map_err(|e| format!("{}: DB::check() fails: {:?}", what, e))?;
            drop(db);
            let db = OpenOptions::new().pagesize(ps).open(&p).map_err(|e| format!("{}: reopen fails: {:?}", what, e))?;
            read_all(&db, &m, &format!("{} (after reopening)", what))?;
            Ok(())
        })();
        let _ = std::fs::remove_file(&p);
        res
    }

    #[test]
    fn cex_history_bulk_load() {
        for (ps, n, vlen) in [(4096u64, 3000u32, 4000usize), (1024, 9500, 1000)] {
            match std::panic::catch_unwind(|| run_bulk_load_shape(ps, n, vlen)) {
                Ok(Ok(())) => {}
                Ok(Err(e)) => { println!("CEX history (C01/C16): {}", e); panic!("bulk load mismatch"); }
                Err(_) => { println!("CEX history (C01 nothing panics): bulk-load shape: page size {}, a transaction puts {} values of {} bytes and commits, a second one does the same again; a commit or a later transaction on the same handle panicked", ps, n, vlen); panic!("bulk load panic"); }
            }
        }
    }

    #[test]
    fn cex_history_deep_shapes() {
        for (lo, hi) in [(0u32, 280u32), (150, 450), (300, 600), (450, 750), (600, 900), (900, 1200), (1200, 1500), (100, 1400)] {
            match std::panic::catch_unwind(|| run_deep_shape(lo, hi)) {
                Ok(Ok(())) => {}
                Ok(Err(e)) => { println!("CEX history (C01/C05): {}", e); panic!("deep shape mismatch"); }
                Err(_) => { println!("CEX history (C01 nothing panics): deep shape [{}..{}) panicked", lo, hi); panic!("deep shape panic"); }
            }
        }
    }

    #[test]
    fn cex_history_shapes() {
        for (n, a, b, top) in [(40u32, 0u32, 20u32, false), (40, 10, 30, false), (40, 20, 40, false), (40, 0, 40, false), (60, 0, 45, true), (60, 15, 60, true), (12, 4, 5, true)] {
            match std::panic::catch_unwind(|| run_shape(n, a, b, top)) {
                Ok(Ok(())) => {}
                Ok(Err(e)) => { println!("CEX history (C01/C05): {}", e); panic!("shape mismatch"); }
                Err(_) => { println!("CEX history (C01 nothing panics): shape: {} {} buckets, then ONE transaction deleting buckets [{}..{}), page size 1024: panicked", n, if top { "top-level" } else { "nested" }, a, b); panic!("shape panic"); }
            }
        }
    }

    #[test]
    fn cex_history_options() {
        // C16: the same seeded histories must behave like the reference map under every accepted combination of options
        for populate in [false, true] {
            POPULATE.store(populate, std::sync::atomic::Ordering::SeqCst);
            for ps in [1024u64, 1032, 3000, 4096, 16384] {
                for np in [4u64, 64] {
                    // map-populate: the regimes in which the file is extended early and later commits allocate from the reserved tail
                    if populate && !(np == 4 && (ps == 1024 || ps == 4096)) { continue; }
                    for strict in [false, true] {
                        for seed in 0..3u64 {
                            match std::panic::catch_unwind(|| run_seed_with(seed, ps, np, strict)) {
                                Ok(Ok(())) => {}
                                Ok(Err(e)) => { POPULATE.store(false, std::sync::atomic::Ordering::SeqCst); println!("CEX history under options (C16): page size {}, initial pages {}, strict mode {}, map-populate {}: {}", ps, np, strict, populate, e); panic!("options mismatch"); }
                                Err(_) => { POPULATE.store(false, std::sync::atomic::Ordering::SeqCst); println!("CEX history under options (C16): page size {}, initial pages {}, strict mode {}, map-populate {}: seed {} panicked", ps, np, strict, populate, seed); panic!("options panic"); }
                            }
                        }
                    }
                }
            }
        }
        POPULATE.store(false, std::sync::atomic::Ordering::SeqCst);
    }

    #[test]
    fn cex_history_model() {
        let n: u64 = std::env::var("VERIF_CEX_SEEDS").ok().and_then(|s| s.parse().ok()).unwrap_or(40);
        let only: Option<u64> = std::env::var("VERIF_CEX_ONLY").ok().and_then(|s| s.parse().ok());
        for seed in 0..n {
            if only.map_or(false, |o| o != seed) { continue; }
            match std::panic::catch_unwind(|| run_seed(seed)) {
                Ok(Ok(())) => {}
                Ok(Err(e)) => { println!("CEX history (C01/C05/C06): {}", e); panic!("history mismatch"); }
                Err(_) => { println!("CEX history (C01 nothing panics): seed {} panicked (re-run `cargo test verif_cex_history -- --nocapture` with RUST_BACKTRACE=1 for the location)", seed); panic!("history panic"); }
            }
        }
    }
}
