//@append src/tx.rs
//@covers TxInner_write_data Tx_commit
//@shim replays/ioshim.c
// Bounded, executable version of the commit contract (clauses w2/w3 of TxInner::write_data and the C11 reading of
// "an I/O error is reported and harmless") on the REAL crate: the system-call trace of one commit is recorded by the
// LD_PRELOAD shim replays/ioshim.c, and every single write of that commit is made to fail in turn.
// Bound: one history (commit A: 20 keys, commit B: 40 keys + 10 overwrites, page size 1024), every single write fault
// of commit B (state, reopen, later transactions checked), and every single write fault of the FIRST commit on a fresh file
// (the one that grows the file), followed by a retry on the same handle.
// Third oracle (C02, crash images): a history that makes the persisted free list span SEVERAL pages, then four further
// commits; for each of them the file before, the traced writes and the file after give crash images: every prefix of the
// write sequence (process kill), and for the writes not yet covered by a completed sync each one alone missing / alone
// present (power loss), and the header write torn at every 8-byte boundary of its first 112 bytes.  Every image must
// reopen, show exactly the state before or after the commit (after, once the final sync is in), pass DB::check() and take
// one more commit.  Finding nothing proves nothing.
#[cfg(test)]
mod verif_cex_commit {
    use crate::{Data, OpenOptions, DB};
    use std::collections::BTreeMap;
    use std::path::PathBuf;
    const PS: u64 = 1024;

    fn tmp(name: &str) -> PathBuf {
        let p = std::env::temp_dir().join(format!("jammdb-cex-{}-{}.verifdb", name, std::process::id()));
        let _ = std::fs::remove_file(&p);
        p
    }
    fn contents(db: &DB) -> BTreeMap<Vec<u8>, Vec<u8>> {
        let tx = db.tx(false).unwrap();
        let mut m = BTreeMap::new();
        if let Ok(b) = tx.get_bucket("b") {
            for d in b.cursor() {
                if let Data::KeyValue(kv) = d {
                    m.insert(kv.key().to_vec(), kv.value().to_vec());
                }
            }
        }
        m
    }
    fn put_keys(db: &DB, from: u32, to: u32, vlen: usize, tag: u8) -> Result<(), crate::Error> {
        let tx = db.tx(true)?;
        {
            let b = tx.get_or_create_bucket("b")?;
            for i in from..to {
                b.put(format!("key{:05}", i), vec![tag ^ (i % 251) as u8; vlen])?;
            }
        }
        tx.commit()
    }
    fn commit_a(db: &DB) { put_keys(db, 0, 20, 100, 0).unwrap(); }
    fn commit_b(db: &DB) -> Result<(), crate::Error> {
        let tx = db.tx(true)?;
        {
            let b = tx.get_or_create_bucket("b")?;
            for i in 20..60u32 { b.put(format!("key{:05}", i), vec![(i % 251) as u8; 300])?; }
            for i in 0..10u32 { b.put(format!("key{:05}", i), vec![0xEE; 40])?; }
        }
        tx.commit()
    }
    fn log_lines() -> Vec<String> {
        let p = std::env::var("IOSHIM_LOG").expect("IOSHIM_LOG not set");
        std::fs::read_to_string(p).unwrap_or_default().lines().map(|s| s.to_string()).collect()
    }
    fn set_ctl(s: &str) { std::fs::write(std::env::var("IOSHIM_CTL").expect("IOSHIM_CTL not set"), s).unwrap(); }
    #[derive(Debug, Clone, PartialEq)]
    enum Ev { W { off: u64, len: u64, ok: bool }, S { ok: bool } }
    fn parse(lines: &[String]) -> Vec<Ev> {
        lines.iter().filter_map(|l| {
            let f: Vec<&str> = l.split_whitespace().collect();
            match f[0] {
                "W" => Some(Ev::W { off: f[2].parse().unwrap(), len: f[3].parse().unwrap(), ok: f.len() < 5 }),
                "S" => Some(Ev::S { ok: f[2] == "0" }),
                _ => None,
            }
        }).collect()
    }
    fn is_hdr(e: &Ev) -> bool { matches!(e, Ev::W { off, .. } if *off < 2 * PS) }

    #[test]
    fn cex_commit_trace_and_write_faults() {
        if std::env::var("IOSHIM_LOG").is_err() { println!("cex commit: shim not loaded, skipped"); return; }
        set_ctl("-1");
        // ---- reference run: the trace of commit B without faults
        let p = tmp("ref");
        let db = OpenOptions::new().pagesize(PS).open(&p).unwrap();
        commit_a(&db);
        let before = contents(&db);
        let mark = log_lines().len();
        let total_writes_before = parse(&log_lines()).iter().filter(|e| matches!(e, Ev::W { .. })).count();
        commit_b(&db).unwrap();
        let after = contents(&db);
        let evs = parse(&log_lines()[mark..]);
        drop(db);
        let _ = std::fs::remove_file(&p);
        assert!(!evs.is_empty(), "I/O shim loaded but saw nothing");
        let writes: Vec<usize> = evs.iter().enumerate().filter(|(_, e)| matches!(e, Ev::W { .. })).map(|(i, _)| i).collect();
        let hdrs: Vec<usize> = writes.iter().cloned().filter(|i| is_hdr(&evs[*i])).collect();
        // w2-header-is-last-write
        if hdrs.len() != 1 || hdrs[0] != *writes.last().unwrap() {
            println!("CEX TxInner::write_data (w2-header-is-last-write): commit of 40 new + 10 overwritten keys at page size 1024 issued the trace {:?}; expected exactly one header write and no write after it", evs);
            panic!("w2");
        }
        let h = hdrs[0];
        // w3-data-durable-before-header
        let last_data = writes.iter().cloned().filter(|i| *i < h).last();
        if let Some(ld) = last_data {
            if !evs[ld..h].iter().any(|e| *e == Ev::S { ok: true }) {
                println!("CEX TxInner::write_data (w3-data-durable-before-header): trace {:?}: no completed sync between the last data-page write (event {}) and the header write (event {})", evs, ld, h);
                panic!("w3a");
            }
        }
        // w3-header-durable-on-ok
        if !evs[h..].iter().any(|e| *e == Ev::S { ok: true }) {
            println!("CEX TxInner::write_data (w3-header-durable-on-ok): trace {:?}: commit returned Ok without a completed sync after the header write", evs);
            panic!("w3b");
        }
        // ---- every single write of commit B fails in turn (C11)
        let nw = writes.len();
        for k in 1..=nw {
            let p = tmp("fault");
            let db = OpenOptions::new().pagesize(PS).open(&p).unwrap();
            commit_a(&db);
            let w0 = parse(&log_lines()).iter().filter(|e| matches!(e, Ev::W { .. })).count();
            let _ = total_writes_before;
            set_ctl(&format!("W {}", w0 + k));
            let r = std::panic::catch_unwind(std::panic::AssertUnwindSafe(|| commit_b(&db)));
            set_ctl("-1");
            let what = format!("history: page size 1024, commit A (20 keys), then commit B (40 new keys, 10 overwritten) with write #{} of {} of commit B failing with EIO (offset {:?})", k, nw, evs[writes[k - 1]]);
            match r {
                Err(_) => { println!("CEX Tx::commit (C11 no panic): {}: commit panicked", what); panic!("c11-panic"); }
                Ok(Ok(())) => { println!("CEX Tx::commit (w3-all-pages-written / C11 error reported): {}: commit returned Ok although one of its writes failed", what); panic!("c11-ok"); }
                Ok(Err(_)) => {}
            }
            let now = contents(&db);
            if now != before && now != after {
                println!("CEX Tx::commit (C11 pre-or-post state on the same handle): {}: the handle shows neither the pre- nor the post-transaction contents", what);
                panic!("c11-state");
            }
            // a copy of the file reopens, is sound, shows pre or post
            let ip = tmp("image");
            std::fs::copy(&p, &ip).unwrap();
            let res = std::panic::catch_unwind(|| {
                let d2 = OpenOptions::new().pagesize(PS).open(&ip).unwrap();
                d2.check().map(|_| contents(&d2))
            });
            let _ = std::fs::remove_file(&ip);
            match res {
                Ok(Ok(c)) if c == before || c == after => {}
                other => {
                    println!("CEX Tx::commit (C11 reopen after the failed commit): {}: reopening a copy of the file gives {:?}", what, other.map(|r| r.map(|c| c.len())));
                    panic!("c11-reopen");
                }
            }
            // the handle keeps working
            let later = std::panic::catch_unwind(std::panic::AssertUnwindSafe(|| put_keys(&db, 100, 110, 50, 7).and_then(|_| db.check())));
            if !matches!(later, Ok(Ok(()))) {
                println!("CEX Tx::commit (C11 later transactions): {}: the next transaction on the same handle gives {:?}", what, later.map(|r| r.map_err(|e| format!("{:?}", e))));
                panic!("c11-later");
            }
            drop(db);
            let _ = std::fs::remove_file(&p);
        }
        // ---- every single write of commit B is SHORT in turn (100 bytes reach the file) and nothing fails afterwards: a short count
        // is not an error, the rest has to be written (write_all does); commit answers Ok and the state is the post-state, or it
        // answers Err and the state is pre or post -- never Ok with a page only partly in the file
        for k in 1..=nw {
            let p = tmp("short");
            let db = OpenOptions::new().pagesize(PS).open(&p).unwrap();
            commit_a(&db);
            let w0 = parse(&log_lines()).iter().filter(|e| matches!(e, Ev::W { .. })).count();
            set_ctl(&format!("Q {} 100", w0 + k));
            let r = std::panic::catch_unwind(std::panic::AssertUnwindSafe(|| commit_b(&db)));
            set_ctl("-1");
            let what = format!("history: page size 1024, commit A (20 keys), then commit B (40 new keys, 10 overwritten) with write #{} of {} of commit B SHORT (100 of its bytes written, no error afterwards; offset {:?})", k, nw, evs[writes[k - 1]]);
            let ok = match r {
                Err(_) => { println!("CEX Tx::commit (C11 no panic): {}: commit panicked", what); panic!("c11-short-panic"); }
                Ok(Ok(())) => true,
                Ok(Err(_)) => false,
            };
            let now = contents(&db);
            if (ok && now != after) || (now != before && now != after) {
                println!("CEX Tx::commit (C11 a short write is not a completed write): {}: commit answered {} and the handle shows {} entries (before {}, after {})", what, if ok { "Ok" } else { "Err" }, now.len(), before.len(), after.len());
                panic!("c11-short-state");
            }
            let ip = tmp("image");
            std::fs::copy(&p, &ip).unwrap();
            let res = std::panic::catch_unwind(|| {
                let d2 = OpenOptions::new().pagesize(PS).open(&ip).unwrap();
                d2.check().map(|_| contents(&d2))
            });
            let _ = std::fs::remove_file(&ip);
            match res {
                Ok(Ok(c)) if (ok && c == after) || (!ok && (c == before || c == after)) => {}
                other => {
                    println!("CEX Tx::commit (C11 a short write is not a completed write): {}: commit answered {}; reopening a copy of the file gives {:?}", what, if ok { "Ok" } else { "Err" }, other.map(|r| r.map(|c| c.len())));
                    panic!("c11-short-reopen");
                }
            }
            let later = std::panic::catch_unwind(std::panic::AssertUnwindSafe(|| put_keys(&db, 100, 110, 50, 7).and_then(|_| db.check())));
            if !matches!(later, Ok(Ok(()))) {
                println!("CEX Tx::commit (C11 later transactions): {}: the next transaction on the same handle gives {:?}", what, later.map(|r| r.map_err(|e| format!("{:?}", e))));
                panic!("c11-short-later");
            }
            drop(db);
            let _ = std::fs::remove_file(&p);
        }
        // ---- the FIRST commit on a fresh file GROWS the file: every single write of it fails in turn, then the same
        // transaction is retried on the same handle (C11: the handle keeps accepting transactions that commit correctly)
        let p = tmp("grow-ref");
        let db = OpenOptions::new().pagesize(PS).open(&p).unwrap();
        let mark = log_lines().len();
        put_keys(&db, 0, 300, 300, 0).unwrap();      // about 100 pages: more than the fresh file holds
        let after_a = contents(&db);
        let nwa = parse(&log_lines()[mark..]).iter().filter(|e| matches!(e, Ev::W { .. })).count();
        drop(db);
        let _ = std::fs::remove_file(&p);
        for k in 1..=nwa {
            let p = tmp("grow-fault");
            let db = OpenOptions::new().pagesize(PS).open(&p).unwrap();
            let w0 = parse(&log_lines()).iter().filter(|e| matches!(e, Ev::W { .. })).count();
            set_ctl(&format!("W {}", w0 + k));
            let r = std::panic::catch_unwind(std::panic::AssertUnwindSafe(|| put_keys(&db, 0, 300, 300, 0)));
            set_ctl("-1");
            let what = format!("history: fresh file (page size 1024), FIRST commit (300 keys of 300 bytes; it grows the file) with write #{} of {} failing with EIO, then the same transaction retried on the same handle", k, nwa);
            match r {
                Err(_) => { println!("CEX Tx::commit (C11 no panic): {}: the failing commit panicked", what); panic!("c11-grow-panic"); }
                Ok(Ok(())) => { println!("CEX Tx::commit (C11 error reported): {}: commit returned Ok although one of its writes failed", what); panic!("c11-grow-ok"); }
                Ok(Err(_)) => {}
            }
            let retry = std::panic::catch_unwind(std::panic::AssertUnwindSafe(|| {
                put_keys(&db, 0, 300, 300, 0).map_err(|e| format!("retry fails: {:?}", e))?;
                let c = contents(&db);
                db.check().map_err(|e| format!("check() fails after the retry: {:?}", e))?;
                put_keys(&db, 100, 110, 50, 7).map_err(|e| format!("a further transaction fails: {:?}", e))?;
                let _ = contents(&db);
                Ok::<_, String>(c)
            }));
            match retry {
                Ok(Ok(c)) if c == after_a => {}
                Ok(Ok(c)) => { println!("CEX Tx::commit (C11 later transactions): {}: after the retry the handle shows {} entries, expected {}", what, c.len(), after_a.len()); panic!("c11-grow-state"); }
                Ok(Err(e)) => { println!("CEX Tx::commit (C11 later transactions): {}: {}", what, e); panic!("c11-grow-later"); }
                Err(_) => { println!("CEX Tx::commit (C11 later transactions): {}: the handle panics after the retry", what); panic!("c11-grow-later-panic"); }
            }
            drop(db);
            let _ = std::fs::remove_file(&p);
        }
    }

    fn del_keys(db: &DB, from: u32, to: u32) -> Result<(), crate::Error> {
        let tx = db.tx(true)?;
        { let b = tx.get_bucket("b")?; for i in from..to { b.delete(format!("key{:05}", i))?; } }
        tx.commit()
    }
    fn del_present(db: &DB, from: u32, to: u32) -> Result<(), crate::Error> {
        let tx = db.tx(true)?;
        { let b = tx.get_bucket("b")?; for i in from..to { let _ = b.delete(format!("key{:05}", i)); } }
        tx.commit()
    }
    // one crash image: `base` (the file before the commit, zero-extended to the new length) with the selected writes applied
    fn image(base: &[u8], post: &[u8], evs: &[Ev], sel: &[usize], torn: Option<(usize, usize)>) -> Vec<u8> {
        let mut img = base.to_vec();
        for &i in sel {
            if let Ev::W { off, len, .. } = evs[i] {
                let (a, mut b) = (off as usize, (off + len) as usize);
                if let Some((ti, keep)) = torn { if ti == i { b = a + keep; } }
                img[a..b].copy_from_slice(&post[a..b]);
            }
        }
        img
    }
    type Step = (&'static str, Box<dyn Fn(&DB) -> Result<(), crate::Error>>);
    #[test]
    fn cex_commit_crash_images() {
        if std::env::var("IOSHIM_LOG").is_err() { println!("cex commit: shim not loaded, skipped"); return; }
        set_ctl("-1");
        // history A: a big file whose persisted free list spans several pages (allocations come from free runs)
        {
            let p = tmp("crash");
            let db = OpenOptions::new().pagesize(PS).open(&p).unwrap();
            put_keys(&db, 0, 300, 700, 1).unwrap();
            del_keys(&db, 0, 250).unwrap();
            put_keys(&db, 1000, 1005, 50, 2).unwrap();
            let steps: Vec<Step> = vec![
                ("put 5 small keys", Box::new(|db: &DB| put_keys(db, 1005, 1010, 50, 3))),
                ("overwrite 10 keys with 700-byte values", Box::new(|db: &DB| put_keys(db, 250, 260, 700, 4))),
                ("delete 10 keys", Box::new(|db: &DB| del_keys(db, 260, 270))),
                ("put 40 keys of 300 bytes", Box::new(|db: &DB| put_keys(db, 2000, 2040, 300, 5))),
            ];
            crash_images_of(&db, &p, "history (page size 1024): put 300 keys of 700 bytes, commit; delete 250 of them, commit; put 5 keys, commit (the persisted free list now spans several pages)", steps);
            drop(db);
            let _ = std::fs::remove_file(&p);
        }
        // history B: a brand-new file and small commits: nearly nothing is free, the pages a commit releases are the LAST pages
        // of the file, and every allocation (the new free-list page included) is taken at or near the end of the file
        {
            let p = tmp("crash-young");
            let db = OpenOptions::new().pagesize(PS).open(&p).unwrap();
            let steps: Vec<Step> = vec![
                ("put 1 small key (first commit of the file)", Box::new(|db: &DB| put_keys(db, 0, 1, 20, 1))),
                ("put 1 more small key", Box::new(|db: &DB| put_keys(db, 1, 2, 20, 2))),
                ("overwrite the first key", Box::new(|db: &DB| put_keys(db, 0, 1, 30, 3))),
                ("put 6 keys of 300 bytes (the leaf splits)", Box::new(|db: &DB| put_keys(db, 10, 16, 300, 4))),
                ("delete 3 of them", Box::new(|db: &DB| del_keys(db, 10, 13))),
                ("put 1 small key", Box::new(|db: &DB| put_keys(db, 2, 3, 20, 5))),
                ("delete everything but one key", Box::new(|db: &DB| del_present(db, 1, 16))),
                ("put 1 small key", Box::new(|db: &DB| put_keys(db, 3, 4, 20, 6))),
            ];
            crash_images_of(&db, &p, "history (page size 1024): a brand-new file", steps);
            drop(db);
            let _ = std::fs::remove_file(&p);
        }
    }
    fn crash_images_of(db: &DB, p: &std::path::PathBuf, hist: &str, steps: Vec<Step>) {
        let mut done = String::new();
        for (si, (name, step)) in steps.iter().enumerate() {
            let pre = std::fs::read(&p).unwrap();
            let before = contents(&db);
            let mark = log_lines().len();
            step(&db).unwrap();
            let post = std::fs::read(&p).unwrap();
            let after = contents(&db);
            let evs = parse(&log_lines()[mark..]);
            let mut base = pre.clone();
            base.resize(post.len(), 0);
            let writes: Vec<usize> = evs.iter().enumerate().filter(|(_, e)| matches!(e, Ev::W { ok: true, .. })).map(|(i, _)| i).collect();
            // the reconstruction needs every byte to be written at most once per commit
            let mut spans: Vec<(u64, u64)> = writes.iter().map(|i| if let Ev::W { off, len, .. } = evs[*i] { (off, off + len) } else { (0, 0) }).collect();
            spans.sort();
            if spans.windows(2).any(|w| w[0].1 > w[1].0) { println!("cex commit: overlapping writes in one commit, crash images not built for step {}", si); continue; }
            let syncs: Vec<usize> = evs.iter().enumerate().filter(|(_, e)| **e == Ev::S { ok: true }).map(|(i, _)| i).collect();
            let hdr = writes.iter().cloned().find(|i| is_hdr(&evs[*i]));
            // (selected writes, torn header, must-be-after, description)
            let mut cases: Vec<(Vec<usize>, Option<(usize, usize)>, bool, String)> = Vec::new();
            for j in 0..=evs.len() {
                // crash after event j-1: durable = writes before the last completed sync; the rest is volatile
                let last_sync = syncs.iter().cloned().filter(|s| *s < j).last();
                let issued: Vec<usize> = writes.iter().cloned().filter(|i| *i < j).collect();
                let durable: Vec<usize> = issued.iter().cloned().filter(|i| last_sync.map_or(false, |s| *i < s)).collect();
                let volatile: Vec<usize> = issued.iter().cloned().filter(|i| !durable.contains(i)).collect();
                let final_sync_in = hdr.map_or(false, |h| last_sync.map_or(false, |s| s > h));
                cases.push((issued.clone(), None, final_sync_in, format!("process killed after event {} of {} (all {} issued writes in the file)", j, evs.len(), issued.len())));
                // power loss: only at the points where the volatile set is largest (just before each sync, and at the end)
                let at_sync_or_end = j == evs.len() || matches!(evs[j], Ev::S { .. });
                if at_sync_or_end && volatile.len() > 1 {
                    for v in &volatile {
                        let mut sel = durable.clone(); sel.extend(volatile.iter().cloned().filter(|x| x != v)); sel.sort();
                        cases.push((sel, None, false, format!("power lost after event {}: every issued write reached the disk except the one at offset {:?}", j, evs[*v])));
                        let mut sel = durable.clone(); sel.push(*v); sel.sort();
                        cases.push((sel, None, false, format!("power lost after event {}: of the writes not yet synced only the one at offset {:?} reached the disk", j, evs[*v])));
                    }
                }
            }
            if let Some(h) = hdr {
                let before_h: Vec<usize> = writes.iter().cloned().filter(|i| *i <= h).collect();
                for keep in (0..112usize).step_by(8) {
                    cases.push((before_h.clone(), Some((h, keep)), false, format!("header write torn: only its first {} bytes reached the disk", keep)));
                }
            }
            for (sel, torn, must_after, what) in cases {
                let img = image(&base, &post, &evs, &sel, torn);
                let ip = tmp("crash-img");
                std::fs::write(&ip, &img).unwrap();
                let ctx = format!("{}{}; then `{}` is committed and the crash image is: {}", hist, done, name, what);
                println!("TRYING {}", ctx);
                let r = std::panic::catch_unwind(|| {
                    let d2 = OpenOptions::new().pagesize(PS).open(&ip).map_err(|e| format!("reopening fails: {:?}", e))?;
                    let c = contents(&d2);
                    d2.check().map_err(|e| format!("the reopened database shows {} entries but check() fails: {:?}", c.len(), e))?;
                    Ok::<_, String>((d2, c))
                });
                let verdict = match r {
                    Err(_) => Err("reopening panics".to_string()),
                    Ok(Err(e)) => Err(e),
                    Ok(Ok((d2, c))) => {
                        let hdr_whole = torn.is_none() && hdr.map_or(false, |h| sel.contains(&h));
                        if must_after && c != after { Err(format!("the commit had returned durable (final sync completed) but the image shows {} entries, the committed state has {}", c.len(), after.len())) }
                        else if !hdr_whole && torn.is_none() && c != before { Err(format!("the header write is not in the image but it shows {} entries; the state before the commit has {}", c.len(), before.len())) }
                        else if c != before && c != after { Err(format!("the image shows {} entries: neither the state before ({}) nor after ({}) the commit", c.len(), before.len(), after.len())) }
                        else {
                            let later = std::panic::catch_unwind(std::panic::AssertUnwindSafe(|| put_keys(&d2, 9000, 9005, 60, 9).and_then(|_| d2.check())));
                            match later { Ok(Ok(())) => Ok(()), other => Err(format!("the next commit on the reopened image gives {:?}", other.map(|r| r.map_err(|e| format!("{:?}", e))))) }
                        }
                    }
                };
                let _ = std::fs::remove_file(&ip);
                if let Err(e) = verdict {
                    println!("CEX TxInner::write_data (C02 crash image): {}: {}", ctx, e);
                    panic!("c02-image");
                }
            }
            done.push_str(&format!("; {} , commit", name));
        }
    }

    // ---- C11: the FILE EXTENSION of a commit fails (RLIMIT_FSIZE makes fallocate answer EFBIG; no shim needed): the commit
    // must answer Err without panicking, the handle must show the state before it, and the SAME handle must keep committing
    // correctly (retry of the same transaction, a further one, check(), reopen)
    #[test]
    fn cex_commit_extension_fault() {
        #[repr(C)] struct RLimit { cur: u64, max: u64 }
        extern "C" { fn getrlimit(res: i32, r: *mut RLimit) -> i32; fn setrlimit(res: i32, r: *const RLimit) -> i32; fn signal(sig: i32, h: usize) -> usize; }
        const RLIMIT_FSIZE: i32 = 1; const SIGXFSZ: i32 = 25; const SIG_IGN: usize = 1;
        // slack: how far beyond the current length the file may still grow.  4 KiB: the page writes fail too; 1 MiB: ONLY the
        // extension (an 8 MiB step) fails, the commit's own writes would fit
        for &(warm, nkeys, slack) in &[(0u32, 300u32, 4096u64), (20, 300, 4096), (20, 3000, 4096), (0, 300, 1 << 20), (20, 300, 1 << 20)] {
            let p = tmp(&format!("ext-fault-{}-{}-{}", warm, nkeys, slack));
            let db = OpenOptions::new().pagesize(PS).open(&p).unwrap();
            if warm > 0 { put_keys(&db, 5000, 5000 + warm, 100, 3).unwrap(); }
            let before = contents(&db);
            let len0 = std::fs::metadata(&p).unwrap().len();
            let mut old = RLimit { cur: 0, max: 0 };
            unsafe { signal(SIGXFSZ, SIG_IGN); getrlimit(RLIMIT_FSIZE, &mut old); setrlimit(RLIMIT_FSIZE, &RLimit { cur: len0 + slack, max: old.max }); }
            let r = std::panic::catch_unwind(std::panic::AssertUnwindSafe(|| put_keys(&db, 0, nkeys, 300, 0)));
            unsafe { setrlimit(RLIMIT_FSIZE, &old); }
            let what = format!("history: file of {} bytes (page size 1024, {} keys committed), then a commit of {} keys of 300 bytes whose FILE EXTENSION fails (EFBIG; the file may grow by at most {} bytes), then transactions on the same handle", len0, warm, nkeys, slack);
            match r {
                Err(_) => { println!("CEX Tx::commit (C11 no panic): {}: the failing commit panicked", what); panic!("c11-ext-panic"); }
                Ok(Ok(())) if slack <= 4096 => { println!("CEX Tx::commit (C11 error reported): {}: commit returned Ok although the file could not be extended", what); panic!("c11-ext-ok"); }
                Ok(Ok(())) => {}        // the writes fitted: a commit that succeeds without the extension is fine as long as the handle keeps working
                Ok(Err(_)) => {}
            }
            let committed = matches!(r, Ok(Ok(())));
            let later = std::panic::catch_unwind(std::panic::AssertUnwindSafe(|| {
                let c = contents(&db);
                if !committed && c != before { return Err(format!("after the failed commit the handle shows {} entries, before it {}", c.len(), before.len())); }
                if committed && c.len() != before.len() + nkeys as usize { return Err(format!("the commit answered Ok but the handle shows {} entries, expected {}", c.len(), before.len() + nkeys as usize)); }
                db.check().map_err(|e| format!("check() fails after the failed commit: {:?}", e))?;
                put_keys(&db, 0, nkeys, 300, 0).map_err(|e| format!("the retry fails: {:?}", e))?;
                let c1 = contents(&db);
                if c1.len() != before.len() + nkeys as usize { return Err(format!("after the retry the handle shows {} entries, expected {}", c1.len(), before.len() + nkeys as usize)); }
                db.check().map_err(|e| format!("check() fails after the retry: {:?}", e))?;
                put_keys(&db, 100, 140, 500, 7).map_err(|e| format!("a further transaction fails: {:?}", e))?;
                let c2 = contents(&db);
                db.check().map_err(|e| format!("check() fails after a further transaction: {:?}", e))?;
                Ok::<_, String>(c2)
            }));
            let c2 = match later {
                Ok(Ok(c)) => c,
                Ok(Err(e)) => { println!("CEX Tx::commit (C11 later transactions): {}: {}", what, e); panic!("c11-ext-later"); }
                Err(_) => { println!("CEX Tx::commit (C11 later transactions): {}: the handle panics in a later transaction", what); panic!("c11-ext-later-panic"); }
            };
            drop(db);
            let db = OpenOptions::new().pagesize(PS).open(&p).unwrap();
            if contents(&db) != c2 { println!("CEX Tx::commit (C11 after reopen): {}: the reopened file differs from what the handle showed", what); panic!("c11-ext-reopen"); }
            drop(db);
            let _ = std::fs::remove_file(&p);
        }
    }

    // ---- C10: a workload whose live data stays bounded reaches a plateau in file pages, ALSO when the free list is longer
    // than one page (a bulk delete), and across close + reopen
    #[test]
    fn cex_commit_growth_plateau() {
        let hwm = |db: &DB| -> u64 { db.inner.meta().unwrap().num_pages };
        for &(bulk, vlen) in &[(60u32, 300usize), (900, 300), (300, 3000)] {
            let p = tmp(&format!("plateau-{}-{}", bulk, vlen));
            let mut db = OpenOptions::new().pagesize(PS).open(&p).unwrap();
            put_keys(&db, 0, bulk, vlen, 1).unwrap();
            del_keys(&db, 0, bulk).unwrap();
            put_keys(&db, 0, 20, 100, 2).unwrap();
            let peak = hwm(&db);
            let mut worst = peak;
            for round in 0..120u32 {
                put_keys(&db, (round % 4) * 5, (round % 4) * 5 + 10, 100 + (round % 3) as usize * 40, round as u8).unwrap();
                worst = worst.max(hwm(&db));
                if round == 60 { drop(db); db = OpenOptions::new().pagesize(PS).open(&p).unwrap(); }
            }
            if worst > peak + 24 {
                println!("CEX C10 (file growth bounded by live data): history: {} keys of {} bytes put and deleted (free list of about {} ids at page size 1024), then 120 transactions that overwrite the same 20 small keys (reopen after 60): the page high-water mark went from {} to {}", bulk, vlen, peak, peak, worst);
                panic!("c10-growth");
            }
            db.check().unwrap();
            drop(db);
            let _ = std::fs::remove_file(&p);
        }
    }
    // ---- C10 with a LARGE, SCATTERED free list (more than 2000 single free pages spread over the file, below a long free run):
    // a value of several pages is overwritten again and again; the runs its old versions leave behind must be found again, so
    // the high-water mark reaches a plateau (the allocator looks at the whole list, however long)
    #[test]
    fn cex_commit_growth_plateau_scattered() {
        let hwm = |db: &DB| -> u64 { db.inner.meta().unwrap().num_pages };
        let p = tmp("plateau-scattered");
        let db = OpenOptions::new().pagesize(PS).open(&p).unwrap();
        put_keys(&db, 0, 9000, 150, 1).unwrap();
        { let tx = db.tx(true).unwrap(); { let b = tx.get_bucket("b").unwrap(); for i in 0..9000u32 { if (i / 6) % 2 == 0 { b.delete(format!("key{:05}", i)).unwrap(); } } } tx.commit().unwrap(); }
        let big = |db: &DB, round: u32| { let tx = db.tx(true).unwrap(); tx.get_bucket("b").unwrap().put("zz-big", vec![round as u8; 8000]).unwrap(); tx.commit().unwrap(); };
        for r in 0..30u32 { big(&db, r); }
        let at30 = hwm(&db);
        for r in 30..90u32 { big(&db, r); }
        let at90 = hwm(&db);
        let free = db.inner.freelist.lock().unwrap().pages().len();
        if at90 > at30 + 24 {
            println!("CEX C10 (file growth bounded by live data): history (page size 1024): 9000 keys of 150 bytes in one transaction, every other group of 6 deleted (a free list of {} ids, most of them single pages scattered over the file), then one 8000-byte value overwritten 90 times: the page high-water mark is {} after 30 overwrites and {} after 90", free, at30, at90);
            panic!("c10-growth-scattered");
        }
        db.check().unwrap();
        drop(db);
        let _ = std::fs::remove_file(&p);
    }
    // ---- C10 for space freed by DELETING A BUCKET that holds values of several pages: fill a scratch bucket with blobs, commit,
    // delete the bucket, commit, again and again; the page runs of the blobs (head page AND overflow pages) must come back
    #[test]
    fn cex_commit_growth_plateau_bucket_delete() {
        let hwm = |db: &DB| -> u64 { db.inner.meta().unwrap().num_pages };
        let p = tmp("plateau-bucket-delete");
        let db = OpenOptions::new().pagesize(PS).open(&p).unwrap();
        put_keys(&db, 0, 20, 100, 1).unwrap();
        let round = |db: &DB, r: u32| {
            { let tx = db.tx(true).unwrap(); { let s = tx.create_bucket("scratch").unwrap(); for i in 0..6u32 { s.put(format!("blob{}", i), vec![(r + i) as u8; 5000]).unwrap(); } let n = s.create_bucket("nested").unwrap(); n.put("blob", vec![r as u8; 7000]).unwrap(); } tx.commit().unwrap(); }
            { let tx = db.tx(true).unwrap(); tx.delete_bucket("scratch").unwrap(); tx.commit().unwrap(); }
        };
        for r in 0..15u32 { round(&db, r); }
        let at15 = hwm(&db);
        for r in 15..60u32 { round(&db, r); }
        let at60 = hwm(&db);
        if at60 > at15 + 24 {
            println!("CEX C10 (file growth bounded by live data): history (page size 1024): 60 rounds of `create bucket scratch with six 5000-byte values and a nested bucket holding a 7000-byte value, commit; delete bucket scratch, commit`: the page high-water mark is {} after 15 rounds and {} after 60", at15, at60);
            panic!("c10-growth-bucket-delete");
        }
        db.check().unwrap();
        drop(db);
        let _ = std::fs::remove_file(&p);
    }
    // ---- C02 across TWO power losses (no shim: images are built from copies of the file between commits).  Crash 1 tears the header
    // write of a commit at 8-byte word granularity (every subset of the words that differ); the image is reopened, one more commit
    // is made, and crash 2 tears THAT header write the same way.  Every image must reopen, pass check() and show the state before
    // or after the interrupted commit.  An image whose header slot holds, byte for byte, the COMPLETE header of the commit that
    // crash 1 interrupted is the recorded finding E14 (the commit redone after recovery gets the same transaction id and goes to
    // the same slot, so two tears together can complete the dead header); it is reported under its own key
    #[test]
    fn cex_commit_two_power_losses() {
        let ps = 4096usize;
        let base = tmp("two-base"); let p1 = tmp("two-c1"); let p2 = tmp("two-c2");
        let open = |p: &PathBuf| OpenOptions::new().pagesize(ps as u64).num_pages(64).open(p).unwrap();
        let state = |p: &PathBuf| -> Result<BTreeMap<Vec<u8>, Vec<u8>>, String> {
            let pp = p.clone();
            std::panic::catch_unwind(move || { let db = OpenOptions::new().pagesize(4096).num_pages(64).open(&pp).map_err(|e| format!("open fails: {:?}", e))?; db.check().map_err(|e| format!("check() fails: {:?}", e))?; Ok::<_, String>(contents(&db)) })
                .unwrap_or_else(|_| Err("reopening panics".to_string()))
        };
        let put = |p: &PathBuf, from: u32, to: u32, tag: u8| { let db = open(p); put_keys(&db, from, to, 120, tag).unwrap(); };
        put(&base, 0, 40, 1); put(&base, 20, 60, 2);
        let state_n = state(&base).unwrap();
        let img_a = std::fs::read(&base).unwrap();
        put(&base, 10, 50, 3);
        let state_n1 = state(&base).unwrap();
        let img_b = std::fs::read(&base).unwrap();
        let hdr_write = |before: &[u8], after: &[u8]| -> (usize, Vec<usize>) {
            let mut found = None;
            for slot in 0..2 { let b = slot * ps; let w: Vec<usize> = (0..ps).step_by(8).filter(|o| before[b + o..b + o + 8] != after[b + o..b + o + 8]).collect(); if !w.is_empty() { found = Some((slot, w)); } }
            found.expect("a commit wrote no header page")
        };
        let torn = |before: &[u8], after: &[u8], slot: usize, words: &[usize], mask: u32| -> Vec<u8> {
            let mut img = after.to_vec(); let b = slot * ps;
            img[b..b + ps].copy_from_slice(&before[b..b + ps]);
            for (i, o) in words.iter().enumerate() { if mask & (1 << i) != 0 { img[b + o..b + o + 8].copy_from_slice(&after[b + o..b + o + 8]); } }
            img
        };
        let (slot1, words1) = hdr_write(&img_a, &img_b);
        if img_a.len() != img_b.len() || words1.len() > 8 { println!("cex two power losses: unexpected shape ({} differing words), skipped", words1.len()); return; }
        let hist = "history (page size 4096): commit 40 keys, commit 40 keys (state N), commit 40 keys (N+1)";
        let mut known = 0usize; let mut first_known = String::new();
        for mask1 in 0..(1u32 << words1.len()) {
            let c1 = torn(&img_a, &img_b, slot1, &words1, mask1);
            std::fs::write(&p1, &c1).unwrap();
            let rec = match state(&p1) { Ok(s) if s == state_n || s == state_n1 => s, other => {
                println!("CEX TxInner::write_data (C02, one power loss): {}; power lost during the header write of N+1, of its {} changed 8-byte words only those of mask {:#b} reached the disk: {}", hist, words1.len(), mask1, match other { Ok(s) => format!("the image shows {} entries: neither N ({}) nor N+1 ({})", s.len(), state_n.len(), state_n1.len()), Err(e) => e });
                panic!("two-c1"); } };
            { let db = open(&p1); put_keys(&db, 900 + mask1, 901 + mask1, 120, 4).unwrap(); }
            let after = state(&p1).unwrap();
            let img_d = std::fs::read(&p1).unwrap();
            let (slot2, words2) = hdr_write(&c1, &img_d);
            if words2.len() > 8 { continue; }
            for mask2 in 0..(1u32 << words2.len()) {
                let c2 = torn(&c1, &img_d, slot2, &words2, mask2);
                std::fs::write(&p2, &c2).unwrap();
                let got = state(&p2);
                if matches!(&got, Ok(s) if *s == rec || *s == after) { continue; }
                let h = |img: &[u8]| img[slot2 * ps..slot2 * ps + ps].to_vec();
                let what = format!("{}; power loss 1 during the header write of N+1 (word mask {:#b} of {} words, slot {}); reopened (recovery shows {} entries), one more commit; power loss 2 during ITS header write (word mask {:#b} of {} words, slot {}): {}", hist, mask1, words1.len(), slot1, rec.len(), mask2, words2.len(), slot2, match &got { Ok(s) => format!("the image shows {} entries: neither the state before ({}) nor after ({}) the interrupted commit", s.len(), rec.len(), after.len()), Err(e) => e.clone() });
                if slot2 == slot1 && h(&c2) == h(&img_b) && h(&c2) != h(&c1) && h(&c2) != h(&img_d) {
                    // E14: the two tears together completed the header record of the commit crash 1 interrupted
                    known += 1; if first_known.is_empty() { first_known = what; }
                } else {
                    println!("CEX TxInner::write_data (C02, two power losses): {}", what);
                    panic!("two-c2");
                }
            }
        }
        for p in [&base, &p1, &p2] { let _ = std::fs::remove_file(p); }
        if known > 0 {
            println!("CEX [finding-key resurrected-header] TxInner::write_data (C02, two power losses): {} images in which the header slot holds, byte for byte, the COMPLETE header of the commit that the first power loss interrupted (the commit made after recovery reuses its transaction id and its slot), e.g.: {}", known, first_known);
            panic!("two-known");
        }
    }
}
