//@append src/tx.rs
//@covers TxInner_write_data Tx_commit
//@shim replays/ioshim.c
// Bounded, executable version of the commit contract (clauses w2/w3 of TxInner::write_data and the C11 reading of
// "an I/O error is reported and harmless") on the REAL crate: the system-call trace of one commit is recorded by the
// LD_PRELOAD shim replays/ioshim.c, and every single write of that commit is made to fail in turn.
// Bound: one history (commit A: 20 keys, commit B: 40 keys + 10 overwrites, page size 1024), every single write fault
// of commit B (state, reopen, later transactions checked), and every single write fault of the FIRST commit on a fresh file
// (the one that grows the file), followed by a retry on the same handle.  Finding nothing proves nothing.
#[cfg(test)]
mod verif_cex_commit {
    use crate::{Data, OpenOptions, DB};
    use std::collections::BTreeMap;
    use std::path::PathBuf;
    const PS: u64 = 1024;

    fn tmp(name: &str) -> PathBuf {
        let p = std::env::temp_dir().join(format!("jammdb-cex-{}-{}.verifdb", name, std::process::id()));
        let _ = std::fs::remove_file(&p);
        p
    }
    fn contents(db: &DB) -> BTreeMap<Vec<u8>, Vec<u8>> {
        let tx = db.tx(false).unwrap();
        let mut m = BTreeMap::new();
        if let Ok(b) = tx.get_bucket("b") {
            for d in b.cursor() {
                if let Data::KeyValue(kv) = d {
                    m.insert(kv.key().to_vec(), kv.value().to_vec());
                }
            }
        }
        m
    }
    fn put_keys(db: &DB, from: u32, to: u32, vlen: usize, tag: u8) -> Result<(), crate::Error> {
        let tx = db.tx(true)?;
        {
            let b = tx.get_or_create_bucket("b")?;
            for i in from..to {
                b.put(format!("key{:05}", i), vec![tag ^ (i % 251) as u8; vlen])?;
            }
        }
        tx.commit()
    }
    fn commit_a(db: &DB) { put_keys(db, 0, 20, 100, 0).unwrap(); }
    fn commit_b(db: &DB) -> Result<(), crate::Error> {
        let tx = db.tx(true)?;
        {
            let b = tx.get_or_create_bucket("b")?;
            for i in 20..60u32 { b.put(format!("key{:05}", i), vec![(i % 251) as u8; 300])?; }
            for i in 0..10u32 { b.put(format!("key{:05}", i), vec![0xEE; 40])?; }
        }
        tx.commit()
    }
    fn log_lines() -> Vec<String> {
        let p = std::env::var("IOSHIM_LOG").expect("IOSHIM_LOG not set");
        std::fs::read_to_string(p).unwrap_or_default().lines().map(|s| s.to_string()).collect()
    }
    fn set_ctl(s: &str) { std::fs::write(std::env::var("IOSHIM_CTL").expect("IOSHIM_CTL not set"), s).unwrap(); }
    #[derive(Debug, Clone, PartialEq)]
    enum Ev { W { off: u64, len: u64, ok: bool }, S { ok: bool } }
    fn parse(lines: &[String]) -> Vec<Ev> {
        lines.iter().filter_map(|l| {
            let f: Vec<&str> = l.split_whitespace().collect();
            match f[0] {
                "W" => Some(Ev::W { off: f[2].parse().unwrap(), len: f[3].parse().unwrap(), ok: f.len() < 5 }),
                "S" => Some(Ev::S { ok: f[2] == "0" }),
                _ => None,
            }
        }).collect()
    }
    fn is_hdr(e: &Ev) -> bool { matches!(e, Ev::W { off, .. } if *off < 2 * PS) }

    #[test]
    fn cex_commit_trace_and_write_faults() {
        if std::env::var("IOSHIM_LOG").is_err() { println!("cex commit: shim not loaded, skipped"); return; }
        set_ctl("-1");
        // ---- reference run: the trace of commit B without faults
        let p = tmp("ref");
        let db = OpenOptions::new().pagesize(PS).open(&p).unwrap();
        commit_a(&db);
        let before = contents(&db);
        let mark = log_lines().len();
        let total_writes_before = parse(&log_lines()).iter().filter(|e| matches!(e, Ev::W { .. })).count();
        commit_b(&db).unwrap();
        let after = contents(&db);
        let evs = parse(&log_lines()[mark..]);
        drop(db);
        let _ = std::fs::remove_file(&p);
        assert!(!evs.is_empty(), "I/O shim loaded but saw nothing");
        let writes: Vec<usize> = evs.iter().enumerate().filter(|(_, e)| matches!(e, Ev::W { .. })).map(|(i, _)| i).collect();
        let hdrs: Vec<usize> = writes.iter().cloned().filter(|i| is_hdr(&evs[*i])).collect();
        // w2-header-is-last-write
        if hdrs.len() != 1 || hdrs[0] != *writes.last().unwrap() {
            println!("CEX TxInner::write_data (w2-header-is-last-write): commit of 40 new + 10 overwritten keys at page size 1024 issued the trace {:?}; expected exactly one header write and no write after it", evs);
            panic!("w2");
        }
        let h = hdrs[0];
        // w3-data-durable-before-header
        let last_data = writes.iter().cloned().filter(|i| *i < h).last();
        if let Some(ld) = last_data {
            if !evs[ld..h].iter().any(|e| *e == Ev::S { ok: true }) {
                println!("CEX TxInner::write_data (w3-data-durable-before-header): trace {:?}: no completed sync between the last data-page write (event {}) and the header write (event {})", evs, ld, h);
                panic!("w3a");
            }
        }
        // w3-header-durable-on-ok
        if !evs[h..].iter().any(|e| *e == Ev::S { ok: true }) {
            println!("CEX TxInner::write_data (w3-header-durable-on-ok): trace {:?}: commit returned Ok without a completed sync after the header write", evs);
            panic!("w3b");
        }
        // ---- every single write of commit B fails in turn (C11)
        let nw = writes.len();
        for k in 1..=nw {
            let p = tmp("fault");
            let db = OpenOptions::new().pagesize(PS).open(&p).unwrap();
            commit_a(&db);
            let w0 = parse(&log_lines()).iter().filter(|e| matches!(e, Ev::W { .. })).count();
            let _ = total_writes_before;
            set_ctl(&format!("W {}", w0 + k));
            let r = std::panic::catch_unwind(std::panic::AssertUnwindSafe(|| commit_b(&db)));
            set_ctl("-1");
            let what = format!("history: page size 1024, commit A (20 keys), then commit B (40 new keys, 10 overwritten) with write #{} of {} of commit B failing with EIO (offset {:?})", k, nw, evs[writes[k - 1]]);
            match r {
                Err(_) => { println!("CEX Tx::commit (C11 no panic): {}: commit panicked", what); panic!("c11-panic"); }
                Ok(Ok(())) => { println!("CEX Tx::commit (w3-all-pages-written / C11 error reported): {}: commit returned Ok although one of its writes failed", what); panic!("c11-ok"); }
                Ok(Err(_)) => {}
            }
            let now = contents(&db);
            if now != before && now != after {
                println!("CEX Tx::commit (C11 pre-or-post state on the same handle): {}: the handle shows neither the pre- nor the post-transaction contents", what);
                panic!("c11-state");
            }
            // a copy of the file reopens, is sound, shows pre or post
            let ip = tmp("image");
            std::fs::copy(&p, &ip).unwrap();
            let res = std::panic::catch_unwind(|| {
                let d2 = OpenOptions::new().pagesize(PS).open(&ip).unwrap();
                d2.check().map(|_| contents(&d2))
            });
            let _ = std::fs::remove_file(&ip);
            match res {
                Ok(Ok(c)) if c == before || c == after => {}
                other => {
                    println!("CEX Tx::commit (C11 reopen after the failed commit): {}: reopening a copy of the file gives {:?}", what, other.map(|r| r.map(|c| c.len())));
                    panic!("c11-reopen");
                }
            }
            // the handle keeps working
            let later = std::panic::catch_unwind(std::panic::AssertUnwindSafe(|| put_keys(&db, 100, 110, 50, 7).and_then(|_| db.check())));
            if !matches!(later, Ok(Ok(()))) {
                println!("CEX Tx::commit (C11 later transactions): {}: the next transaction on the same handle gives {:?}", what, later.map(|r| r.map_err(|e| format!("{:?}", e))));
                panic!("c11-later");
            }
            drop(db);
            let _ = std::fs::remove_file(&p);
        }
        // ---- the FIRST commit on a fresh file GROWS the file: every single write of it fails in turn, then the same
        // transaction is retried on the same handle (C11: the handle keeps accepting transactions that commit correctly)
        let p = tmp("grow-ref");
        let db = OpenOptions::new().pagesize(PS).open(&p).unwrap();
        let mark = log_lines().len();
        put_keys(&db, 0, 300, 300, 0).unwrap();      // about 100 pages: more than the fresh file holds
        let after_a = contents(&db);
        let nwa = parse(&log_lines()[mark..]).iter().filter(|e| matches!(e, Ev::W { .. })).count();
        drop(db);
        let _ = std::fs::remove_file(&p);
        for k in 1..=nwa {
            let p = tmp("grow-fault");
            let db = OpenOptions::new().pagesize(PS).open(&p).unwrap();
            let w0 = parse(&log_lines()).iter().filter(|e| matches!(e, Ev::W { .. })).count();
            set_ctl(&format!("W {}", w0 + k));
            let r = std::panic::catch_unwind(std::panic::AssertUnwindSafe(|| put_keys(&db, 0, 300, 300, 0)));
            set_ctl("-1");
            let what = format!("history: fresh file (page size 1024), FIRST commit (300 keys of 300 bytes; it grows the file) with write #{} of {} failing with EIO, then the same transaction retried on the same handle", k, nwa);
            match r {
                Err(_) => { println!("CEX Tx::commit (C11 no panic): {}: the failing commit panicked", what); panic!("c11-grow-panic"); }
                Ok(Ok(())) => { println!("CEX Tx::commit (C11 error reported): {}: commit returned Ok although one of its writes failed", what); panic!("c11-grow-ok"); }
                Ok(Err(_)) => {}
            }
            let retry = std::panic::catch_unwind(std::panic::AssertUnwindSafe(|| {
                put_keys(&db, 0, 300, 300, 0).map_err(|e| format!("retry fails: {:?}", e))?;
                let c = contents(&db);
                db.check().map_err(|e| format!("check() fails after the retry: {:?}", e))?;
                put_keys(&db, 100, 110, 50, 7).map_err(|e| format!("a further transaction fails: {:?}", e))?;
                let _ = contents(&db);
                Ok::<_, String>(c)
            }));
            match retry {
                Ok(Ok(c)) if c == after_a => {}
                Ok(Ok(c)) => { println!("CEX Tx::commit (C11 later transactions): {}: after the retry the handle shows {} entries, expected {}", what, c.len(), after_a.len()); panic!("c11-grow-state"); }
                Ok(Err(e)) => { println!("CEX Tx::commit (C11 later transactions): {}: {}", what, e); panic!("c11-grow-later"); }
                Err(_) => { println!("CEX Tx::commit (C11 later transactions): {}: the handle panics after the retry", what); panic!("c11-grow-later-panic"); }
            }
            drop(db);
            let _ = std::fs::remove_file(&p);
        }
    }
}
