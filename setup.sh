#!/bin/sh
# offline setup: nothing to download; warm the Verus and Kani caches
set -e
cd "$(dirname "$0")"
mkdir -p build evidence .cache
exit 0
